"""C18 - LaTeX en/decoding touches only text values, round-trips, contains errors.

Proof level for the wrapper (_PyStringTransformerMiddleware: scope, types, error containment, order of visits) with the
converter as an arbitrary function; the round-trip clause is a statement about pylatexenc + the rules configured in
latex_encoding.py and is validated BY TESTING ONLY (stream `roundtrip`): C18 is claimed as partial."""
import json
import re

from props import libspec
from props import userclasses
from props.libspec import jv, unjv

ENGINE = "latexwrap"
RULE = ("streams: rules = the ENCODER RULES configured in latex_encoding.py (keep_math / enclose_urls / defaults) compared with "
        "Model/LatexRules.v (op 121) on all token sequences of length <= 2 (thorough: 3) over 28 tokens ($, escaped $, backslash, newline, "
        "blanks, URL schemes, www, dots, TeX specials, accented letter) under two / all five option sets plus random sequences of 3-9 "
        "tokens, through LatexEncodingMiddleware on a one-field library, the per-character default conversion observed on a pristine "
        "pylatexenc encoder; each case also carries the round-trip verdict under the known classes; wrapper = random small libraries (str / int / list / list-of-NameParts / NameParts / None values, @string "
        "blocks, comments, duplicate keys) through the REAL Latex{En,De}codingMiddleware classes constructed with custom "
        "stub converter objects (table: e-acute <-> \\'e; raises 'boom <text>' on texts containing BOOM, raises an exception "
        "with an empty message on QUIET), sequences enc / dec / enc,dec / dec,enc, compared with the Coq wrapper model run on "
        "the same stubs; options = real pylatexenc under every constructor option (keep_math, enclose_urls, keep_braced_groups, "
        "keep_math_mode in {None, True, False}, custom encoder / decoder, the documented ValueError for conflicting options): "
        "scope / type oracle only; roundtrip (TEST, not proof) = texts over ASCII letters, digits, accented Latin letters "
        "(U+00C0-U+017F minus single characters that pristine pylatexenc itself does not round-trip, computed at run time), "
        "punctuation, TeX specials, URLs, $...$ spans, placed in a field, a NameParts "
        "part and an @string, encoded (default / keep_math x enclose_urls options) then decoded; letter sweep (TEST) = EVERY "
        "letter of U+00C0-U+024F, U+1E00-U+1EFF (incl. the Vietnamese letters with two diacritics), Greek U+0370-U+03FF and "
        "Cyrillic U+0400-U+04FF, minus exactly the single characters that pristine pylatexenc (called directly) does not "
        "round-trip (computed at run time), packed many per value in order and shuffled, bare / between ASCII letters / as "
        "space-separated words, under all five option combinations, placed in a field value, as NameParts words and in an "
        "@string value; the texts with -- `` '' !` ?` ^ \" and every accented Latin letter form their own stream (k12): they are run, "
        "failures there are known finding K12; plus random texts as above drawing their accented letters from that whole alphabet; protected regions (TEST) = "
        "values with exactly ONE $...$ span whose body holds backslash-escaped TeX specials (\\$ \\% \\& \\{ \\} \\# \\_ , also doubled, first / "
        "last in the body), the span being the whole value, at its very start, at its very end, in the middle, glued to letters / "
        "accented letters / brackets / TeX specials, next to an escaped dollar OUTSIDE the span: bounded-exhaustive over (special x "
        "body layout x context) and random, under all five option combinations, kept only when pristine pylatexenc (called "
        "directly, computed at run time) round-trips the value both fully encoded and with the span kept verbatim; positions = entries of 1..5 "
        "(thorough: 1..7) fields with a non-text value (int, bool, None, float, list) at EVERY non-empty subset of the field positions "
        "(first / middle / last / several / all), the other fields holding texts that convert, stay or fail, stub converters, compared "
        "with the Coq wrapper model like the wrapper stream; userclass (ORACLE ONLY: the model has no user classes) = the same position "
        "patterns and random libraries built from the CALLER'S OWN classes: Entry subclasses (trivial subclass, subclass whose `fields` "
        "property hands out a copy of its list), String / Preamble / comment subclasses, str-subclass field values, @string values and "
        "NameParts words, int-subclass and float values, duplicates of a key across plain and subclass blocks, through the real "
        "middlewares with the stub converters, judged by the same wrapper oracle (converted text, exact converter calls in order, "
        "error containment, block class kept); userclass-default (ORACLE ONLY) = such libraries and position patterns over the "
        "round-trip alphabet through the middlewares with their DEFAULT converters (enc / dec / enc,dec): scope and types, equality "
        "with the result on the same library built from the plain classes, and decode(encode(.)) = identity on every block whose texts "
        "pristine pylatexenc round-trips; sparse markup (TEST, appended last) = for EVERY "
        "character c of the round-trip alphabet (all 32 ASCII punctuation characters incl. the TeX specials, NO-BREAK SPACE, every accented "
        "Latin letter U+00C0-U+017F: set main, no exclusion but K5 / K12) and of a wide set (Latin-1 signs, spacing modifiers, general "
        "punctuation and spaces U+2000-U+206F, currency, letterlike, arrows, mathematical operators, technical, geometric, music signs and "
        "every other letter of the sweep: set wide, kept only where pristine pylatexenc round-trips the text) the texts in which c is the "
        "ONLY character whose encoding is markup: c alone, x c y glued, c between blanks, c as a word between words, c doubled, tripled, "
        "repeated with a blank, and two DIFFERENT such characters and nothing else (glued both ways, separated by a blank), through encode "
        "(default options; x c y also under the four other option combinations, in the quick tier one of them per character) then decode, in a field, as a NameParts word and in an "
        "@string: quick = every layout for main and one layout (rotating with the character and the seed) for wide, thorough = every layout and option for both; "
        "coincide / coincide-default (appended last, props/c18_coincide.py) = libraries in which a text (whole field value, NameParts word at any of the four "
        "parts, @string value) OCCURS A SECOND TIME IN ANOTHER ROLE: as the key of an @string block (incl. its own, incl. a key defined twice), an entry key, a "
        "field name, an entry type, another text value, a metadata key or value, a word the library reserves or emits (selfref), the other occurrence in the "
        "same block / a block before / after / 12-40 blocks away / both sides, the text ranging over identifiers and over keys holding & ~ _ % # every other key "
        "punctuation character and accented letters, bounded-exhaustive over (role x carrier x place) plus `soup` libraries whose every key, name, type, value "
        "and metadata come from one pool of 3-5 texts, some built from the caller's own classes: coincide = stub converters, judged like the wrapper stream "
        "(oracle: converted text, exact converter calls in order, error containment; Coq wrapper model where no user class occurs); coincide-default (ORACLE "
        "ONLY) = default converters under all five encoder and eight decoder option sets, in-place and copy mode, enc / dec / enc,dec / dec,enc: scope and "
        "types, EVERY visited text converted exactly as the same text standing alone in a one-field control library whose names differ from it, and "
        "decode(encode(.)) = identity on the blocks within the third party's reach; urlrun / urlrun-rules (TEST, appended last, props/c18_urlrun.py) = texts whose "
        "ENCODED form puts several brace groups on ONE blank-free run: a URL (http / https / ftp / www, bare, with _ #, with % ~ &) followed DIRECTLY by a "
        "character whose encoding is not a blank (NO-BREAK SPACE -> ~, EN SPACE and the other Unicode spaces, zero-width characters, soft hyphen, punctuation, "
        "closing brackets, quotes) followed by text whose encoding has braces (sharp s, o-slash, L-stroke, ae, A-ring, dotless i, accented letters, literal { }, "
        "& % # _ ~ backslash, a SECOND URL, one math span) or by plain text / nothing, in 20 layouts (URL first / last / between, in parentheses / brackets / "
        "quotes, between words, two and three URLs, two such runs, doubled separator, after a math span, at a sentence end): NBSP x tail class x layout "
        "bounded-exhaustive, the other separators with rotating layouts, plus random; urlrun = round trip in a field, NameParts words and an @string (default "
        "options, one case in five another option set), urlrun-rules = the encoder's output against Model/LatexRules.v plus the round trip of the field; "
        "characters beyond the named alphabet are demanded only where pristine pylatexenc round-trips the text. distinct = "
        "distinct (stream, input); non-trivial = some visited text is changed by the converter or fails")
TRUSTED = ["the encoder RULES of latex_encoding.py are modelled (Model/LatexRules.v, op 121); pylatexenc's default conversion of one "
           "character enters that model as an oracle (in the proofs: an arbitrary function enc_char; in the correspondence: a table "
           "observed on a pristine UnicodeToLatexEncoder for the characters of each text), as does Unicode NFC normalisation (the "
           "harness hands the model the normalised text)",
           "pylatexenc (encoder tables, LaTeX parser) is NOT modelled: the round-trip clause of C18 is validated by testing only "
           "(stream roundtrip) - the proof-level claim is PARTIAL: scope, types, error containment and the conditional round trip "
           "(C18_roundtrip_conditional: IF dec (enc s) = s on the alphabet THEN the two middlewares compose to the identity)",
           "the executable stub converters of Model/LatexWrap.v and the stub objects in harness/props/c18.py implement the same "
           "table by construction (checked by the correspondence itself)"]
ASSUMPTIONS = ["the converter is an arbitrary function str -> (str, error message) (Section variable); "
               "_transform_python_value_string of the two shipped classes is try/except around one pylatexenc call"]

CASE_TIMEOUT_S = 60

# ---------------------------------------------------------------- stub converters (same tables as Model/LatexWrap.v)
SEP = "\n\n=====\n\n"
PREFIX = "Middleware could not be fully applied: "


class _Quiet(Exception):
    def __str__(self):
        return ""


def stub_enc_text(s):
    return s.replace("é", "\\'e")


def stub_dec_text(s):
    return s.replace("\\'e", "é")


def stub_raw(f, s):
    if "BOOM" in s:
        raise ValueError("boom " + s)
    if "QUIET" in s:
        raise _Quiet()
    return f(s)


class StubEncoder:
    def __init__(self):
        self.calls = []

    def unicode_to_latex(self, s):
        self.calls.append(s)
        return stub_raw(stub_enc_text, s)


class StubDecoder:
    def __init__(self):
        self.calls = []

    def latex_to_text(self, s):
        self.calls.append(s)
        return stub_raw(stub_dec_text, s)


def stub_conv(kind, s):
    """(text, failed, message) the property demands for one visited text: the converted text, or on ANY failure the
    original text and a non-empty reason (the exception's message; None = any non-empty text when it has none)"""
    try:
        return stub_raw(stub_enc_text if kind == 0 else stub_dec_text, s), False, ""
    except Exception as e:  # noqa: BLE001
        return s, True, (str(e) or None)


def reasons_match(got, want):
    return len(got) == len(want) and all((isinstance(g, str) and g != "") if w is None else g == w for g, w in zip(got, want))


# ---------------------------------------------------------------- generation: wrapper stream
TEXTS = ["plain", "café", "éé", "BOOM", "xBOOMy é", "QUIET", "\\'e", "a\\'e é", "", "{é}", "\\\\'e", "\\'",
         "\\'\\'e", "BOOMQUIET", "boom", " é "]


def gen_wrap_value(rng, key):
    r = rng.random()
    if r < 0.55:
        return rng.choice(TEXTS)
    if r < 0.75:
        def part():
            return [rng.choice(TEXTS) for _ in range(rng.choice([0, 1, 1, 2]))]
        return {"parts": [part(), part(), part(), part()]}
    if r < 0.82:
        return {"list": [{"parts": [["é"], [], ["BOOM"], []]}]}          # what SplitNameParts produces: NOT visited
    if r < 0.88:
        return {"list": ["é", "BOOM"]}
    return rng.choice([{"int": 3}, None, {"bool": True}, {"other": 0}, {"dict": [["é", "é"]]}])


def gen_wrap_string_value(rng, key):
    return rng.choice(TEXTS) if rng.random() < 0.85 else rng.choice([{"int": 3}, None, {"list": ["é"]}])


def gen_wrap_meta(rng, spec):
    return [["méta", "é BOOM"]] if rng.random() < 0.2 else None


# ---------------------------------------------------------------- generation: the caller's own classes, non-text values at every position
# Extended value specs (this file only): {"strsub": text} = an instance of a str subclass; {"float": x}; {"intsub": n} = an
# instance of an int subclass; {"parts": [...], "sub": 1} = NameParts whose words are str-subclass instances.
# Extended block specs: "cls": "sub" (trivial subclass of the block's class) | "copy" (Entry subclass whose `fields` property
# returns a copy of the list it holds).
NONTEXT = [{"int": 3}, {"int": 0}, None, {"bool": True}, {"bool": False}, {"float": 1.5}, {"float": 0.0}, {"float": -2.25},
           {"float": 1e100}, {"list": ["é", "BOOM"]}, {"list": []}, {"list": [{"int": 1}, None]}]
NONTEXT_USER = NONTEXT + [{"intsub": 7}, {"intsub": 0}, {"list": [{"strsub": "é"}, {"strsub": "BOOM"}]}]
STUB_TEXTS = ["café", "é", "plain", "BOOM", "xBOOMy é", "QUIET", "\\'e", "a\\'e é", "", "éé"]


def position_patterns(nmax):
    """every (number of fields, non-empty set of positions holding a non-text value)"""
    for nf in range(1, nmax + 1):
        for mask in range(1, 1 << nf):
            yield nf, [i for i in range(nf) if mask >> i & 1]


def user_text(rng, text, user):
    """a text value: plain str, or for the caller's classes also a str-subclass instance / NameParts (of str-subclass words)"""
    r = rng.random()
    if r < 0.15:
        words = [text] + ([rng.choice(["x", "é", text])] if rng.random() < 0.5 else [])
        v = {"parts": [words, [], [text], [text] if rng.random() < 0.2 else []]}
        if user and rng.random() < 0.6:
            v["sub"] = 1
        return v
    if user and r < 0.6:
        return {"strsub": text}
    return text


def gen_position_entry(rng, nf, pos, ecls, text_gen, nontext):
    fields = []
    for i in range(nf):
        key = FKEYS18[i % len(FKEYS18)] + ("" if i < len(FKEYS18) else str(i))
        v = rng.choice(nontext) if i in pos else user_text(rng, text_gen(rng), ecls is not None)
        fields.append([key, v, rng.choice([None, i + 1])])
    s = {"t": "entry", "type": rng.choice(["article", "book"]), "key": rng.choice(libspec.KEYS), "fields": fields,
         "sl": rng.choice([None, 0, 4]), "raw": rng.choice([None, "@raw{...}"])}
    if ecls:
        s["cls"] = ecls
    return s


FKEYS18 = ["title", "year", "author", "note", "month", "pages", "volume", "number"]


def gen_position_library(rng, nf, pos, ecls, text_gen, nontext):
    """the entry with the pattern, sometimes with an @string (of a subclass when the entry is) before or after it"""
    specs = [gen_position_entry(rng, nf, pos, ecls, text_gen, nontext)]
    if rng.random() < 0.4:
        v = text_gen(rng)
        st = {"t": "string", "key": rng.choice(libspec.SKEYS), "value": {"strsub": v} if ecls and rng.random() < 0.5 else v,
              "sl": rng.choice([None, 9]), "raw": None}
        if ecls and rng.random() < 0.7:
            st["cls"] = "sub"
        specs.insert(rng.choice([0, 1]), st)
    return specs


def gen_user_library(rng, text_gen, stub):
    """random small library (repeated keys, comments, failed block, metadata) whose blocks and values are instances of the
    caller's classes with probability > 1/2 each; one Entry subclass per library next to plain entries (Library itself refuses
    a duplicate key between two unrelated subclasses before any middleware runs)"""
    def value(r, key):
        x = r.random()
        if x < 0.7:
            return user_text(r, text_gen(r), True)
        if x < 0.78:
            return {"list": [{"parts": [["é"], [], ["BOOM"], []]}]}
        return r.choice(NONTEXT_USER)

    def svalue(r, key):
        x = r.random()
        if x < 0.45:
            return {"strsub": text_gen(r)}
        if x < 0.85:
            return text_gen(r)
        return r.choice([{"int": 3}, None, {"list": ["é"]}, {"float": 2.5}, {"intsub": 4}])
    while True:
        specs = libspec.gen_library(rng, value, meta_gen=gen_wrap_meta if stub else None, string_value=svalue)
        ecls = rng.choice(["sub", "copy"])
        for s in specs:
            if s["t"] == "entry" and rng.random() < 0.65:
                s["cls"] = ecls
            elif s["t"] in ("string", "preamble", "expl", "impl") and rng.random() < 0.6:
                s["cls"] = "sub"
        if has_user(specs):
            return specs


def value_is_user(v):
    if isinstance(v, dict):
        if "strsub" in v or "intsub" in v or v.get("sub"):
            return True
        if "list" in v:
            return any(value_is_user(x) for x in v["list"])
    return False


def has_user(specs):
    """does the library hold an instance of a class the Coq model cannot represent (a user subclass)?"""
    for s in specs:
        if s.get("cls"):
            return True
        if s["t"] == "entry" and any(value_is_user(v) for _, v, _ in s["fields"]):
            return True
        if s["t"] == "string" and value_is_user(s["value"]):
            return True
    return False


def spec_texts(specs):
    """every text the middlewares are to visit"""
    out = []

    def of(v):
        if isinstance(v, str):
            out.append(v)
        elif isinstance(v, dict) and "strsub" in v:
            out.append(v["strsub"])
        elif isinstance(v, dict) and "parts" in v:
            for p in v["parts"]:
                out.extend(p)
    for s in specs:
        if s["t"] == "entry":
            for _, v, _ in s["fields"]:
                of(v)
        elif s["t"] == "string":
            of(s["value"])
    return out


def gen_rt_text(rng):
    """a text of the round-trip alphabet outside the known classes K5 / K6 under the default options"""
    while True:
        t = gen_text(rng)
        if allowed_text(t) and rt_known_class(t, True, True) is None:
            return t


def gen_userclass_cases(rng, quick):
    cases = []
    stub_text = lambda r: r.choice(STUB_TEXTS)  # noqa: E731
    seqs = [[0], [1], [0, 1], [1, 0], [0, 0]]
    n = 0
    for rep in range(1 if quick else 6):
        for nf, pos in position_patterns(5 if quick else 7):
            for ecls in (None, "sub", "copy"):
                n += 1
                lib = gen_position_library(rng, nf, pos, ecls, stub_text, NONTEXT_USER if ecls else NONTEXT)
                cases.append({"stream": "userclass" if has_user(lib) else "positions",
                              "input": {"kind": "wrapper", "lib": lib, "mws": seqs[n % 2] if rng.random() < 0.6 else rng.choice(seqs)}})
            n += 1
            ecls = rng.choice([None, "sub", "copy"])
            lib = gen_position_library(rng, nf, pos, ecls, gen_rt_text, NONTEXT_USER if ecls else NONTEXT)
            cases.append({"stream": "userclass-default", "input": {"kind": "userdefault", "lib": lib, "mws": [[0], [1], [0, 1]][n % 3]}})
    for _ in range(250 if quick else 5000):
        cases.append({"stream": "userclass", "input": {"kind": "wrapper", "lib": gen_user_library(rng, stub_text, True), "mws": rng.choice(seqs)}})
    for i in range(120 if quick else 2500):
        cases.append({"stream": "userclass-default", "input": {"kind": "userdefault", "lib": gen_user_library(rng, gen_rt_text, False),
                                                               "mws": [[0], [1], [0, 1]][i % 3]}})
    return cases


# ---------------------------------------------------------------- generation: round-trip texts
ASCII_LETTERS = "abcdefghijklmnopqrstuvwxyzABCDEFGHIJKLMNOPQRSTUVWXYZ"
ACCENTED = [chr(c) for c in range(0xC0, 0x180) if chr(c).isalpha()]
# the letter sweep: every letter of the Latin blocks (Latin-1 Supplement, Extended-A, Extended-B, Extended Additional incl.
# Vietnamese), basic Greek and Cyrillic
SWEEP_RANGES = [(0xC0, 0x250), (0x1E00, 0x1F00), (0x370, 0x400), (0x400, 0x500)]
SWEEP = [chr(c) for a, b in SWEEP_RANGES for c in range(a, b) if chr(c).isalpha()]
PUNCT = list(",;:.!?()[]/*+=<>|@-'")
SPECIALS = list("&%#_{}~\\$")
FORBIDDEN = ["--", "``", "''", "!`", "?`", "^", '"']      # known finding K12 (with the accented letters computed at run time)
ACCENTED_SET = set(ACCENTED)
K12_FIXED = ["pp. 1--10", "a---b", "``x''", 'say "hi"', "x^2", "!`Hola!", "?`Que?", "Erd\u0171s", "\u0126al", "a--", "--", "^", '"',
             "1--2 and 3--4", "it''s", "a'b", "a`b", "- -", "a-b", "wh?` !`", "\u0170\u0171\u0166\u0167\u013f\u0140\u0138\u0149"]
URL_RE = [re.compile(r"(https?://\S*\.\S*)"), re.compile(r"(www.\S*\.\S*)")]


def gen_text(rng, accented=ACCENTED):
    segs = []
    for _ in range(rng.choice([1, 2, 3, 4, 6])):
        r = rng.random()
        if r < 0.4:
            pool = ASCII_LETTERS if rng.random() < 0.5 else accented
            segs.append("".join(rng.choice(pool if rng.random() < 0.6 else ASCII_LETTERS) for _ in range(rng.randint(1, 6))))
        elif r < 0.5:
            segs.append(str(rng.randint(0, 2050)))
        elif r < 0.65:
            segs.append(rng.choice(PUNCT))
        elif r < 0.8:
            segs.append(rng.choice(SPECIALS))
        elif r < 0.9:
            path = "".join(rng.choice("abcXYZ019/._-?=#" + ("%~&" if rng.random() < 0.15 else "")) for _ in range(rng.randint(0, 8)))
            segs.append(rng.choice(["http://", "https://", "www."]) + rng.choice(["a.org", "x.y.de", "ex.com"]) + ("/" + path if path else ""))
        else:
            body = "".join(rng.choice(["x", "y", "1", "+", "=", "_", " ", "\\alpha", "\\frac{a}{b}", "{n}", "-"]) for _ in range(rng.randint(1, 5)))
            segs.append("$" + body.strip() + "$" if body.strip() else "$x$")
    out = ""
    for s in segs:
        out += s + (" " if rng.random() < 0.6 else "")
    return out


def allowed_text(s):
    return not any(f in s for f in FORBIDDEN)


# ---- protected regions: ONE $...$ span holding backslash-escaped specials (the delimiter itself included), at every position
ESCAPED = ["\\$", "\\%", "\\&", "\\{", "\\}", "\\#", "\\_"]
MATH_ATOMS = ["x", "y", "1", "5", "+", "=", "_", " ", "\\alpha", "\\frac{a}{b}", "{n}", "-", "\\,", "p", "<", "é"]
BODY_LAYOUTS = ["%s", "a%sb", "%s5", "x%s", "a %s b", "%s%s", "p = %s3 + \\frac{a}{b}"]
SPAN_CONTEXTS = ["%s", "%s tail", "head %s", "A fee of %s per page", "a%sb", "(%s)", "é%sü", "50%% & %s #1_{x}", "\\$5 and %s",
                 "%s costs \\$5", "%s\nline", "~%s."]


def protected_fixed(quick, rng):
    """bounded-exhaustive: (escaped special x body layout x context); every option combination for the escaped delimiter"""
    out = []
    n = 0
    for e in ESCAPED:
        for lay in BODY_LAYOUTS:
            for ctx in SPAN_CONTEXTS:
                text = ctx % ("$" + lay.replace("%s", e) + "$")
                n += 1
                if e == "\\$" and (not quick or n % 2 == 0):
                    opts = ENC_OPTS
                elif quick:
                    opts = [ENC_OPTS[n % len(ENC_OPTS)]] if n % 3 == 0 else []
                else:
                    opts = ENC_OPTS
                out.extend((text, o) for o in opts)
    return out


def gen_protected_text(rng, accented=ACCENTED):
    atoms = []
    for _ in range(rng.choice([0, 1, 2, 3, 5])):
        atoms.append(rng.choice(MATH_ATOMS) if rng.random() < 0.7 else rng.choice(ESCAPED))
    atoms.insert(rng.choice([0, len(atoms), rng.randint(0, len(atoms))]), "\\$" if rng.random() < 0.6 else rng.choice(ESCAPED))
    span = "$" + "".join(atoms) + "$"

    def side():
        segs = []
        for _ in range(rng.choice([0, 0, 1, 2, 3])):
            r = rng.random()
            if r < 0.45:
                pool = ASCII_LETTERS if rng.random() < 0.5 else accented
                segs.append("".join(rng.choice(pool) for _ in range(rng.randint(1, 5))))
            elif r < 0.55:
                segs.append(str(rng.randint(0, 2050)))
            elif r < 0.7:
                segs.append(rng.choice(PUNCT))
            elif r < 0.9:
                segs.append(rng.choice(["&", "%", "#", "_", "{", "}", "~", "\\$", "\\%", "{x}"]))
            else:
                segs.append(rng.choice(["http://a.org/x", "www.ex.com", "\n", "\t"]))
        return "".join(x + (" " if rng.random() < 0.5 else "") for x in segs)
    left, right = side(), side()
    if left.endswith("\\"):
        left += " "
    return left + span + right


def unescaped_dollars(s):
    return len(re.findall(r"(?<!\\)\$", s))


def tex_dollars(s):
    """dollars that TeX (and the decoder) reads as math delimiters: a backslash takes the NEXT character with it, so a dollar
    after an even run of backslashes is a delimiter although the rule's look-behind (one character) calls it escaped"""
    n, i = 0, 0
    while i < len(s):
        if s[i] == "\\":
            i += 2
            continue
        n += s[i] == "$"
        i += 1
    return n


ENC_OPTS = [[None, None], [True, True], [True, False], [False, True], [False, False]]


def sweep_texts(rng, quick):
    """(text, all options?) covering EVERY letter of SWEEP at least once per option combination: packed many per value (the
    cost stays low), in code point order and shuffled (other neighbours), bare, between ASCII letters and as words"""
    out = []
    for p in range(2 if quick else 12):
        ls = list(SWEEP)
        if p:
            rng.shuffle(ls)
        per = 24 if quick or p < 2 else rng.choice([1, 2, 6, 12, 24])
        for n, i in enumerate(range(0, len(ls), per)):
            chunk = ls[i:i + per]
            style = (n + p) % 4 if p < 2 else rng.randrange(6)
            if style == 0:      # words of three letters
                text = " ".join("".join(chunk[j:j + 3]) for j in range(0, len(chunk), 3))
            elif style == 1:    # every letter inside an ASCII word (a following letter must not be eaten by a macro name)
                text = " ".join("x" + c + "y" for c in chunk)
            elif style == 2:    # one long word
                text = "".join(chunk)
            elif style == 3:    # one-letter words and word-initial letters
                text = " ".join(c + ("" if j % 2 else "b") for j, c in enumerate(chunk))
            elif style == 4:    # next to digits and punctuation
                text = "".join(c + rng.choice(["1", ", ", ".", ": ", "-", "/", "(", ")", " "]) for c in chunk)
            else:               # next to TeX specials
                text = "".join(c + rng.choice(["&", "%", "#", "_", "{", "}", "~", " ", "\\"]) for c in chunk)
            out.append((text, p == 0))
    return out


# ---- sparse markup: ONE character whose encoding is markup (or two different ones) and nothing else that needs encoding
SPARSE_MAIN = list(dict.fromkeys(PUNCT + SPECIALS + ["\xa0", "^", '"', "`"] + ACCENTED))
SPARSE_WIDE_RANGES = [(0xA1, 0xC0), (0xD7, 0xD8), (0xF7, 0xF8), (0x2B0, 0x300), (0x2000, 0x2070), (0x20A0, 0x20C0), (0x2100, 0x2150),
                      (0x2190, 0x2330), (0x25A0, 0x2600), (0x2660, 0x2670), (0x27E8, 0x27EA), (0x27F5, 0x27FD)]
SPARSE_WIDE = [chr(c) for a, b in SPARSE_WIDE_RANGES for c in range(a, b)] + [c for c in SWEEP if c not in ACCENTED_SET]
SPARSE_LAYOUTS = [("alone", "C"), ("glued-in-word", "xCy"), ("between-blanks", " C "), ("word-between-words", "a C b"), ("doubled", "CC"),
                  ("repeated-with-blank", "C C"), ("tripled", "CCC")]
SPARSE_PAIR_LAYOUTS = [("pair-glued", "CD"), ("pair-glued-reversed", "DC"), ("pair-with-blank", "C D")]
# partners of a pair that certainly need encoding (the run-time tags say for every case what pristine pylatexenc makes of its characters)
SPARSE_PARTNERS = SPECIALS + ["\xa0", "<", ">", "|"]


SPARSE_MAIN_SET = set(SPARSE_MAIN)


def sparse_case(layout, fmt, chars, opts, which):
    if not all(c in SPARSE_MAIN_SET for c in chars):
        which = "wide"          # a character beyond the named alphabet: demanded only where pristine pylatexenc round-trips the text
    text = "".join(chars[0] if x == "C" else chars[1] if x == "D" else x for x in fmt)
    inp = {"kind": "roundtrip", "text": text, "opts": opts, "words": " " in fmt,
           "sparse": {"layout": layout, "chars": list(chars), "set": which}}
    if which == "wide":
        inp["pristine"] = True
    return {"stream": "sparse", "input": inp}


def gen_sparse_cases(rng, quick):
    cases = []
    default = ENC_OPTS[0]
    for n, c in enumerate(SPARSE_MAIN):
        for name, fmt in SPARSE_LAYOUTS:
            if not quick:
                opts = ENC_OPTS
            elif name == "glued-in-word":
                opts = [default, ENC_OPTS[1 + n % 4]]
            else:
                opts = [default]
            for o in opts:
                cases.append(sparse_case(name, fmt, [c], o, "main"))
        partners = [rng.choice(SPARSE_PARTNERS), rng.choice(ACCENTED), rng.choice(SPARSE_MAIN)]
        if not quick:
            partners += [rng.choice(SPARSE_PARTNERS), rng.choice(SPARSE_MAIN), rng.choice(SPARSE_WIDE)]
        for j, d in enumerate(partners):
            while d == c:
                d = rng.choice(SPARSE_MAIN)
            name, fmt = SPARSE_PAIR_LAYOUTS[(j + rng.randrange(3)) % 3 if j > 2 else j]
            cases.append(sparse_case(name, fmt, [c, d], default if quick else rng.choice(ENC_OPTS), "main"))
    off = rng.randrange(len(SPARSE_LAYOUTS))
    for i, c in enumerate(SPARSE_WIDE):
        if quick:
            lay = [SPARSE_LAYOUTS[(i + off) % len(SPARSE_LAYOUTS)]]
        else:
            lay = SPARSE_LAYOUTS
        for j, (name, fmt) in enumerate(lay):
            cases.append(sparse_case(name, fmt, [c], default if quick or j % 2 == 0 else rng.choice(ENC_OPTS), "wide"))
        if not quick or i % 4 == off % 4:
            d = rng.choice(SPARSE_PARTNERS + SPARSE_WIDE)
            while d == c:
                d = rng.choice(SPARSE_WIDE)
            name, fmt = SPARSE_PAIR_LAYOUTS[i % 3]
            cases.append(sparse_case(name, fmt, [c, d], default, "wide"))
    return cases


def generate(rng, tier):
    quick = tier == "quick"
    cases = []
    for _ in range(1200 if quick else 20000):
        specs = libspec.gen_library(rng, gen_wrap_value, meta_gen=gen_wrap_meta, string_value=gen_wrap_string_value)
        cases.append({"stream": "wrapper", "input": {"kind": "wrapper", "lib": specs, "mws": rng.choice([[0], [1], [0, 1], [1, 0], [0, 0]])}})
    for _ in range(150 if quick else 3000):
        specs = libspec.gen_library(rng, lambda r, k: gen_rt_value(r), string_value=lambda r, k: gen_text_ok(r))
        cases.append({"stream": "options", "input": {"kind": "options", "lib": specs, "which": rng.choice(["enc", "dec"]),
                                                     "opts": [rng.choice([None, True, False]), rng.choice([None, True, False])],
                                                     "custom": rng.random() < 0.2}})
    fixed = ["café & co", "50% of $x_1$", "a_b #1 {c} ~ \\ d", "see http://a.org/x_y.", "Müller, Jürgen", "$\\alpha+\\frac{a}{b}$ text",
             "www.ex.com/a#b", "Ångström Łódź", "1 < 2 > 0", "a $ b $ c", "5$", "", " ", "x  y", "é\nè",
             "$a$ & $b$", "$a$ and 50% of $b$", "http://a.b/c%20d", "http://a.b/~u", "https://a.b/c?d=e&f=g"]
    n_rt = 1000 if quick else 40000
    texts = list(fixed)
    while len(texts) < n_rt:
        t = gen_text(rng)
        if allowed_text(t):
            texts.append(t)
    for i, t in enumerate(texts):
        cases.append({"stream": "roundtrip", "input": {"kind": "roundtrip", "text": t, "opts": ENC_OPTS[i % len(ENC_OPTS)] if i >= len(fixed) else [None, None]}})
    # K12: the texts of the named alphabet that the streams above leave out (ligature sequences, " ^, every accented Latin letter)
    k12 = list(K12_FIXED) + [c for c in ACCENTED]
    for _ in range(120 if quick else 4000):
        t = gen_text(rng)
        j = rng.randint(0, len(t))
        k12.append(t[:j] + rng.choice(FORBIDDEN) + t[j:])
    for i, t in enumerate(k12):
        cases.append({"stream": "roundtrip", "input": {"kind": "roundtrip", "text": t, "opts": ENC_OPTS[i % len(ENC_OPTS)], "k12": True}})
    # letter sweep: "drop" = the single characters pristine pylatexenc does not round-trip are removed from the text at run time
    for i, (t, every_opt) in enumerate(sweep_texts(rng, quick)):
        for o in (ENC_OPTS if every_opt else [ENC_OPTS[i % len(ENC_OPTS)]]):
            cases.append({"stream": "roundtrip", "input": {"kind": "roundtrip", "text": t, "opts": o, "drop": True, "words": True}})
    n_wide = 150 if quick else 6000
    while n_wide:
        t = gen_text(rng, SWEEP)
        if allowed_text(t):
            n_wide -= 1
            cases.append({"stream": "roundtrip", "input": {"kind": "roundtrip", "text": t, "opts": ENC_OPTS[n_wide % len(ENC_OPTS)], "drop": True,
                                                           "words": n_wide % 2 == 0}})
    # protected regions: escaped specials inside ONE math span; "pristine" = kept only if pristine pylatexenc round-trips the value
    for t, o in protected_fixed(quick, rng):
        cases.append({"stream": "roundtrip", "input": {"kind": "roundtrip", "text": t, "opts": o, "pristine": True}})
    n_prot = 250 if quick else 10000
    while n_prot:
        t = gen_protected_text(rng, ACCENTED if n_prot % 3 else SWEEP)
        if allowed_text(t):
            n_prot -= 1
            cases.append({"stream": "roundtrip", "input": {"kind": "roundtrip", "text": t, "opts": ENC_OPTS[n_prot % len(ENC_OPTS)],
                                                           "pristine": True, "drop": n_prot % 3 == 0, "words": n_prot % 4 == 0}})
    # the caller's own classes and non-text values at every field position (appended: the streams above keep their inputs)
    cases.extend(gen_userclass_cases(rng, quick))
    # sparse markup (appended: the streams above keep their inputs)
    cases.extend(gen_sparse_cases(rng, quick))
    # the encoder rules of latex_encoding.py against Model/LatexRules.v (op 121), appended last (props/c18_rules.py)
    from props import c18_rules
    cases.extend(c18_rules.generate(rng, quick))
    # coincidences between a text and a key / name / type / value / metadata of the same library, appended last (props/c18_coincide.py)
    from props import c18_coincide
    cases.extend(c18_coincide.generate(rng, quick))
    # several brace groups on ONE blank-free run of the encoded text: URL + no-break space / punctuation / zero-width character + text
    # whose encoding has braces, appended last (props/c18_urlrun.py)
    from props import c18_urlrun
    cases.extend(c18_urlrun.generate(rng, quick, ACCENTED, FORBIDDEN))
    return cases


def gen_text_ok(rng):
    while True:
        t = gen_text(rng)
        if allowed_text(t):
            return t


def gen_rt_value(rng):
    r = rng.random()
    if r < 0.6:
        return gen_text_ok(rng)
    if r < 0.8:
        return {"parts": [[gen_text_ok(rng)], [], [gen_text_ok(rng), gen_text_ok(rng)], []]}
    return rng.choice([{"int": 3}, None, {"list": [gen_text_ok(rng)]}, {"list": [{"parts": [["é"], [], ["x"], []]}]}])


def shrink(case):
    inp = case["input"]
    if "lib" in inp:
        for lib in libspec.shrink_library(inp["lib"]):
            yield {"stream": case["stream"], "input": dict(inp, lib=lib)}
        if len(inp.get("mws", [])) > 1:
            for k in range(len(inp["mws"])):
                yield {"stream": case["stream"], "input": dict(inp, mws=inp["mws"][:k] + inp["mws"][k + 1:])}
    elif "text" in inp:
        t = inp["text"]
        for i in range(len(t)):
            yield {"stream": case["stream"], "input": dict(inp, text=t[:i] + t[i + 1:])}


# ---------------------------------------------------------------- the property on a library spec (independent of the model)
def expected_wrapper(specs, kind):
    """Per top-level block spec: (expected ignore/plain block as a spec, failed?, reasons, calls) for one application of the
    wrapper with the stub converter `kind`.  Blocks that are duplicates of an earlier key are wrapped by Library and NOT visited."""
    out = []
    seen_e, seen_s = set(), set()
    for s in specs:
        t = s["t"]
        dup = s.get("_dupwrapped") or (t == "entry" and s["key"] in seen_e) or (t == "string" and s["key"] in seen_s)
        if t == "entry":
            seen_e.add(s["key"])
        if t == "string":
            seen_s.add(s["key"])
        if dup or t not in ("entry", "string") or s.get("_mwerr"):
            out.append((s, False, [], []))
            continue
        reasons, calls = [], []

        def cv(x):
            calls.append(x)
            r, failed, msg = stub_conv(kind, x)
            if failed:
                reasons.append(msg)
            return r
        if t == "entry":
            nf = []
            for k, v, ln in s["fields"]:
                if isinstance(v, str):
                    v2 = cv(v)
                elif isinstance(v, dict) and "strsub" in v:         # an instance of a str subclass IS a string-typed value
                    v2 = cv(v["strsub"])
                elif isinstance(v, dict) and "parts" in v:
                    f, vo, la, jr = v["parts"]
                    f2 = [cv(x) for x in f]
                    la2 = [cv(x) for x in la]
                    vo2 = [cv(x) for x in vo]
                    jr2 = [cv(x) for x in jr]
                    v2 = {"parts": [f2, vo2, la2, jr2]}
                else:
                    v2 = v
                nf.append([k, v2, ln])
            s2 = dict(s, fields=nf)
        else:
            sv = s["value"]
            s2 = dict(s, value=cv(sv)) if isinstance(sv, str) else dict(s, value=cv(sv["strsub"])) if isinstance(sv, dict) and "strsub" in sv else s
        out.append((s2, bool(reasons), reasons, calls))
    return out


_MODEL_CLASSES = ("Entry", "String", "Preamble", "ExplicitComment", "ImplicitComment")
CLS_NAMES = {("entry", "sub"): "SubEntry", ("entry", "copy"): "CopyFieldsEntry", ("string", "sub"): "SubString",
             ("preamble", "sub"): "SubPreamble", ("expl", "sub"): "SubExplicitComment", ("impl", "sub"): "SubImplicitComment"}


def _class_of(b, exact):
    """(name of the library class the block is an instance of, tag suffix naming the exact class of a user subclass)"""
    cn = type(b).__name__
    if type(b).__module__ == "bibtexparser.model":
        return cn, ""
    for k in type(b).__mro__[1:]:
        if k.__module__ == "bibtexparser.model" and k.__name__ in _MODEL_CLASSES:
            return k.__name__, ("<%s>" % cn if exact else "")
    return cn, ""


def block_view(b, exact=True):
    """structural view of a real block for comparison with a spec; an instance of a user subclass is viewed as its library
    class with the exact class in the tag (`entry<SubEntry>`); exact=False leaves user class names out (comparison of a library
    of user classes with the same library built from the plain classes)"""
    cn, sub = _class_of(b, exact)
    md = list(b.parser_metadata.items())
    if cn == "Entry":
        return ("entry" + sub, b.entry_type, b.key, [(f.key, value_view(f.value, exact), f.start_line) for f in b.fields], b.start_line,
                b.raw, md)
    if cn == "String":
        return ("string" + sub, b.key, value_view(b.value, exact), b.start_line, b.raw, md)
    if cn in ("Preamble",):
        return ("preamble" + sub, b.value, b.start_line, b.raw, md)
    if cn == "ExplicitComment":
        return ("expl" + sub, b.comment, b.start_line, b.raw, md)
    if cn == "ImplicitComment":
        return ("impl" + sub, b.comment, b.start_line, b.raw, md)
    if cn == "MiddlewareErrorBlock":
        return ("mwerr", block_view(b.ignore_error_block, exact), b.start_line, b.raw, md)
    if cn == "DuplicateBlockKeyBlock":
        return ("dup", b.key, block_view(b.ignore_error_block, exact), b.start_line, b.raw, md)
    return (cn, b.start_line, b.raw, md)


def value_view(v, exact=True):
    cn = type(v).__name__
    if cn == "NameParts":
        return ("parts",) + tuple([str(x) if isinstance(x, str) else x for x in p] for p in (v.first, v.von, v.last, v.jr))
    if isinstance(v, list):
        return ("list", [value_view(x, exact) for x in v])
    if isinstance(v, dict):
        return ("dict", [(k, value_view(x, exact)) for k, x in v.items()])
    if isinstance(v, str):
        return ("str", str(v))                  # an instance of a str subclass is a string: the claim is on type str and content
    if isinstance(v, float):
        return ("float", repr(v))
    if isinstance(v, bool) or v is None:
        return (cn, v)
    if isinstance(v, int):
        return (cn if exact else "int", int(v))
    return (cn,)


def spec_view(s):
    t = s["t"]
    md = [(k, unjv_plain(v)) for k, v in s.get("meta", [])]
    sub = "<%s>" % CLS_NAMES[(t, s["cls"])] if s.get("cls") else ""
    if t == "entry":
        return ("entry" + sub, s["type"], s["key"], [(k, spec_value_view(v), ln) for k, v, ln in s["fields"]], s.get("sl"), s.get("raw"), md)
    if t == "string":
        return ("string" + sub, s["key"], spec_value_view(s["value"]), s.get("sl"), s.get("raw"), md)
    if t in ("preamble", "expl", "impl"):
        return (t + sub, s["text"], s.get("sl"), s.get("raw"), md)
    return ("ParsingFailedBlock", s.get("sl"), s.get("raw") or "@x{", md)


def unjv_plain(v):
    return v


def spec_value_view(v):
    if isinstance(v, dict):
        if "parts" in v:
            f, vo, la, jr = v["parts"]
            return ("parts", list(f), list(vo), list(la), list(jr))
        if "list" in v:
            return ("list", [spec_value_view(x) for x in v["list"]])
        if "dict" in v:
            return ("dict", [(k, spec_value_view(x)) for k, x in v["dict"]])
        if "int" in v:
            return ("int", v["int"])
        if "bool" in v:
            return ("bool", v["bool"])
        if "other" in v:
            return ("_Opaque",)
        if "strsub" in v:
            return ("str", v["strsub"])
        if "float" in v:
            return ("float", repr(float(v["float"])))
        if "intsub" in v:
            return ("IntSub", v["intsub"])
    if v is None:
        return ("NoneType", None)
    return ("str", v)


def reasons_of(b):
    msg = str(b.error)
    assert msg.startswith(PREFIX), msg
    return msg[len(PREFIX):].split(SEP)


# ---------------------------------------------------------------- implementation side
def impl(case):
    if case["input"]["kind"] == "rules":
        from props import c18_rules
        return c18_rules.impl(case)
    if case["input"]["kind"] == "coincide":
        from props import c18_coincide
        return c18_coincide.impl(case)
    return {"wrapper": impl_wrapper, "options": impl_options, "roundtrip": impl_roundtrip,
            "emptymsg": impl_emptymsg, "userdefault": impl_userdefault}[case["input"]["kind"]](case)


def unjv18(v):
    """libspec.unjv plus the value specs of this file (str / int subclass instances, floats)"""
    if isinstance(v, dict):
        if "strsub" in v:
            return userclasses.get().StrSub(v["strsub"])
        if "intsub" in v:
            return userclasses.get().IntSub(v["intsub"])
        if "float" in v:
            return float(v["float"])
        if "list" in v:
            return [unjv18(x) for x in v["list"]]
        if "parts" in v and v.get("sub"):
            from bibtexparser.middlewares.names import NameParts
            S = userclasses.get().StrSub
            f, vo, la, jr = v["parts"]
            return NameParts(first=[S(x) for x in f], von=[S(x) for x in vo], last=[S(x) for x in la], jr=[S(x) for x in jr])
    return unjv(v)


def build_blocks18(specs):
    """libspec.build_blocks plus blocks that are instances of the caller's subclasses ("cls")"""
    from bibtexparser import model as M
    out = []
    for spec in specs:
        t = spec["t"]
        if t == "entry":
            b = M.Entry(spec["type"], spec["key"], [M.Field(k, unjv18(v), ln) for k, v, ln in spec["fields"]], start_line=spec.get("sl"),
                        raw=spec.get("raw"))
        elif t == "string":
            b = M.String(spec["key"], unjv18(spec["value"]), start_line=spec.get("sl"), raw=spec.get("raw"))
        else:
            b = libspec.build_block(dict(spec, meta=[]))
        for k, v in spec.get("meta", []):
            b.parser_metadata[k] = unjv(v)
        cls = spec.get("cls")
        if cls:
            uc = userclasses.get()
            b2 = uc.as_copyfields(b) if cls == "copy" else uc.as_sub(b)
            assert type(b2).__name__ == CLS_NAMES[(t, cls)], (type(b2).__name__, t, cls)
            b = b2
        out.append(b)
    return out


def plain_twin(specs):
    """the same library built from the library's own classes only"""
    def val(v):
        if isinstance(v, dict):
            if "strsub" in v:
                return v["strsub"]
            if "intsub" in v:
                return {"int": v["intsub"]}
            if "list" in v:
                return {"list": [val(x) for x in v["list"]]}
            if "parts" in v:
                return {"parts": v["parts"]}
        return v
    out = []
    for s in specs:
        s = {k: x for k, x in s.items() if k != "cls"}
        if s["t"] == "entry":
            s["fields"] = [[k, val(v), ln] for k, v, ln in s["fields"]]
        elif s["t"] == "string":
            s["value"] = val(s["value"])
        out.append(s)
    return out


def class_tags(specs):
    """distribution of the new input class: user classes present, positions of the non-text values among the fields"""
    tags = set()
    for s in specs:
        if s.get("cls"):
            tags.add("class:" + CLS_NAMES[(s["t"], s["cls"])])
        vals = [v for _, v, _ in s["fields"]] if s["t"] == "entry" else [s["value"]] if s["t"] == "string" else []

        def walk(v, top):
            if isinstance(v, dict):
                if "strsub" in v:
                    tags.add("value:StrSub" if top else "value:StrSub-inside-list")
                if "intsub" in v:
                    tags.add("value:IntSub")
                if "float" in v and top:
                    tags.add("value:float")
                if v.get("sub"):
                    tags.add("value:NameParts-of-StrSub")
                for x in v.get("list", []):
                    walk(x, False)
        for v in vals:
            walk(v, True)
        if s["t"] == "entry" and vals:
            nt = [i for i, v in enumerate(vals) if not (isinstance(v, str) or (isinstance(v, dict) and ("strsub" in v or "parts" in v)))]
            n = len(vals)
            if nt and len(nt) < n:
                if 0 in nt:
                    tags.add("nontext-at:first")
                if n - 1 in nt:
                    tags.add("nontext-at:last")
                if any(0 < i < n - 1 for i in nt):
                    tags.add("nontext-at:middle")
                if len(nt) > 1:
                    tags.add("nontext-at:several")
            elif nt:
                tags.add("nontext-at:all")
    return sorted(tags)


def impl_emptymsg(case):
    """former finding K7 (fixed): a custom converter raising exceptions WITHOUT message (bare raise, failed assert)"""
    import implutil
    from bibtexparser.library import Library
    from bibtexparser.model import Entry, Field, String
    from bibtexparser.middlewares import LatexEncodingMiddleware, LatexDecodingMiddleware
    which = case["input"]["which"]

    class Conv:
        def unicode_to_latex(self, s):
            if "assert" in s:
                assert False
            raise ValueError()
        latex_to_text = unicode_to_latex
    rec = {"sx_in": None, "sx_out": None, "key": json.dumps(["emptymsg", which]), "nontrivial": True, "tags": ["emptymsg"]}

    def run():
        mw = LatexEncodingMiddleware(encoder=Conv()) if which == "enc" else LatexDecodingMiddleware(decoder=Conv())
        return mw.transform(Library([Entry("article", "k", [Field("title", "x")], 0, "@a"), String("s", "assert y", 1, "@s"),
                                     Entry("article", "j", [Field("year", 1990)], 2, "@b")]))
    r = implutil.guarded(run)
    if r[0] == "exc":
        rec["oracle"] = {"ok": False, "detail": "middleware raised %s" % r[2]}
        return rec
    bl = r[1].blocks
    names = [type(b).__name__ for b in bl]
    ok = names == ["MiddlewareErrorBlock", "MiddlewareErrorBlock", "Entry"] and bl[0].ignore_error_block.fields[0].value == "x" \
        and bl[1].ignore_error_block.value == "assert y" and all(m != "" for b in bl[:2] for m in reasons_of(b))
    rec["oracle"] = {"ok": ok, "detail": "" if ok else "conversion failures without message are not contained: blocks %r" % names}
    rec["summary"] = repr(names)
    return rec


def impl_wrapper(case):
    import enc
    import implutil
    from bibtexparser.library import Library
    from bibtexparser.middlewares import LatexEncodingMiddleware, LatexDecodingMiddleware
    assert enc.enc_char("é") == 29906
    inp = case["input"]
    specs, mws = inp["lib"], inp["mws"]
    blocks = build_blocks18(specs)
    # instances of the caller's own classes have no counterpart in the Coq model: such cases are judged by the oracle alone
    user = has_user(specs)
    rec = {"sx_in": None if user else [120, list(mws), [enc.enc_block(b) for b in blocks]], "key": json.dumps(["wrapper", specs, mws])}
    all_errs, all_calls, views = [], [], []

    def run():
        lib = Library(blocks)
        for k in mws:
            conv = StubEncoder() if k == 0 else StubDecoder()
            mw = LatexEncodingMiddleware(encoder=conv) if k == 0 else LatexDecodingMiddleware(decoder=conv)
            ins = list(lib.blocks)
            lib = mw.transform(lib)
            outs = list(lib.blocks)
            assert len(ins) == len(outs)
            all_errs.append([reasons_of(o) if (type(o).__name__ == "MiddlewareErrorBlock" and o is not i) else [] for i, o in zip(ins, outs)])
            all_calls.append(list(conv.calls))
            views.append([block_view(o) for o in outs])
        return lib
    r = implutil.guarded(run)
    new_tags = class_tags(specs) if case.get("stream") in ("userclass", "positions", "coincide") else []
    if case.get("stream") == "coincide":
        from props import c18_coincide
        new_tags = ["coincide:stub:" + ",".join("enc" if k == 0 else "dec" for k in mws)] + c18_coincide.tags(specs) + new_tags
    if r[0] == "exc":
        rec["sx_out"] = None if user else implutil.r_exc(r[1])
        rec["oracle"] = {"ok": False, "detail": "LaTeX middleware raised %s instead of containing the error" % r[2]}
        rec["summary"] = "raised " + r[2]
        rec["nontrivial"] = True
        rec["tags"] = new_tags
        return rec
    lib = r[1]
    rec["sx_out"] = None if user else implutil.r_ok([[enc.enc_block(b, abstract_prev=True) for b in lib.blocks],
                                                     [[[enc.enc_str(m) for m in blk] for blk in app] for app in all_errs]])
    # ---- oracle: scope / types / error containment / visiting order, from the spec
    ok, detail = True, ""
    cur = [dict(s) for s in specs]
    changed = False
    for step, k in enumerate(mws):
        exp = expected_wrapper(cur, k)
        exp_calls = [c for (_, _, _, calls) in exp for c in calls]
        seen_e, seen_s = set(), set()
        nxt = []
        for j, ((s2, failed, reasons, calls), got) in enumerate(zip(exp, views[step])):
            t = s2["t"]
            dup = s2.get("_dupwrapped") or (t == "entry" and s2["key"] in seen_e) or (t == "string" and s2["key"] in seen_s)
            if t == "entry":
                seen_e.add(s2["key"])
            if t == "string":
                seen_s.add(s2["key"])
            if s2.get("_mwerr"):
                want = ("mwerr", spec_view(s2["_inner"]), s2.get("sl"), s2.get("raw"), [])
            elif dup:
                want = ("dup", s2["key"], spec_view(s2), s2.get("sl"), s2.get("raw"), [])
            elif failed:
                want = ("mwerr", spec_view(s2), s2.get("sl"), s2.get("raw"), [])
            else:
                want = spec_view(s2)
            if ok and got != want:
                ok, detail = False, "application %d (%s) block %d: got %r, the property demands %r" % (step, "enc" if k == 0 else "dec", j, got, want)
            if ok and not reasons_match(all_errs[step][j], reasons):
                ok, detail = False, "application %d block %d: error reasons %r, expected %r" % (step, j, all_errs[step][j], reasons)
            if s2 != cur[j] or failed:
                changed = True
            if failed:
                nxt.append({"t": "failed", "_mwerr": True, "_inner": s2, "sl": s2.get("sl"), "raw": s2.get("raw")})
            elif dup and not s2.get("_dupwrapped"):
                nxt.append(dict(s2, _dupwrapped=True))
            else:
                nxt.append(s2)
        if ok and all_calls[step] != exp_calls:
            ok, detail = False, "application %d: converter called on %r, expected exactly %r in this order" % (step, all_calls[step], exp_calls)
        if len(views[step]) != len(exp):
            ok, detail = False, "number of blocks changed"
        cur = nxt
    rec["oracle"] = {"ok": ok, "detail": detail}
    rec["nontrivial"] = changed
    rec["tags"] = ["wrapper:" + ("error" if any(any(b for b in app) for app in all_errs) else "clean")]  + (["wrapper:empty-message-failure"] if any("_Quiet" in b for app in all_errs for b in app) else []) + new_tags
    rec["summary"] = repr(views[-1])[:200] if views else ""
    return rec


def _scope_ok(before, after):
    """scope / type claim on real blocks: everything equal except str field values, NameParts part strings, @string str values"""
    if after[0] == "mwerr":
        if after[2:] != (before[-3], before[-2], []):
            return False, "error block header differs from the block's"
        after = after[1]
    if before[0] != after[0]:
        return False, "block class changed %r -> %r" % (before[0], after[0])
    kind = before[0].split("<")[0]              # `entry<SubEntry>`: an instance of the caller's subclass of Entry
    if kind == "entry":
        if (before[1], before[2], before[4:]) != (after[1], after[2], after[4:]):
            return False, "entry type / key / line / raw / metadata changed"
        if len(before[3]) != len(after[3]):
            return False, "number of fields changed"
        for (k1, v1, l1), (k2, v2, l2) in zip(before[3], after[3]):
            if (k1, l1) != (k2, l2):
                return False, "field key / line changed"
            if v1[0] == "str":
                if v2[0] != "str":
                    return False, "str value of %s became %s" % (k1, v2[0])
            elif v1[0] == "parts":
                if v2[0] != "parts" or [len(x) for x in v1[1:]] != [len(x) for x in v2[1:]] or \
                        not all(isinstance(y, str) for x in v2[1:] for y in x):
                    return False, "NameParts of %s changed shape" % k1
            elif v1 != v2:
                return False, "non-text value of %s changed: %r -> %r" % (k1, v1, v2)
        return True, ""
    if kind == "string":
        if (before[1], before[3:]) != (after[1], after[3:]):
            return False, "string key / line / raw / metadata changed"
        if before[2][0] == "str":
            return (after[2][0] == "str"), "string value became %s" % after[2][0]
        return before[2] == after[2], "non-text string value changed"
    return before == after, "a block that is neither entry nor string changed"


def impl_options(case):
    import implutil
    from bibtexparser.library import Library
    from bibtexparser.middlewares import LatexEncodingMiddleware, LatexDecodingMiddleware
    inp = case["input"]
    blocks = libspec.build_blocks(inp["lib"])
    a, b = inp["opts"]
    rec = {"sx_in": None, "sx_out": None, "key": json.dumps(["options", inp["lib"], inp["which"], inp["opts"], inp["custom"]]),
           "nontrivial": True}
    custom = None
    if inp["custom"]:
        if inp["which"] == "enc":
            from pylatexenc.latexencode import UnicodeToLatexEncoder
            custom = UnicodeToLatexEncoder(non_ascii_only=True)
        else:
            from pylatexenc.latex2text import LatexNodes2Text
            custom = LatexNodes2Text(strict_latex_spaces=True)

    def build():
        if inp["which"] == "enc":
            return LatexEncodingMiddleware(keep_math=a, enclose_urls=b, encoder=custom)
        return LatexDecodingMiddleware(keep_braced_groups=a, keep_math_mode=b, decoder=custom)
    m = implutil.guarded(build)
    conflict = custom is not None and (a is not None or b is not None)
    if m[0] == "exc":
        ok = conflict and m[2] == "ValueError"
        rec["oracle"] = {"ok": ok, "detail": "" if ok else "constructor raised %s for options %r custom=%r" % (m[2], inp["opts"], inp["custom"])}
        rec["tags"] = ["options:ctor-ValueError"]
        rec["summary"] = "constructor raised " + m[2]
        return rec
    if conflict:
        rec["oracle"] = {"ok": False, "detail": "conflicting options %r with a custom converter accepted" % (inp["opts"],)}
        return rec
    lib = Library(blocks)
    before = [block_view(x) for x in lib.blocks]
    r = implutil.guarded(lambda: m[1].transform(lib))
    if r[0] == "exc":
        rec["oracle"] = {"ok": False, "detail": "middleware raised %s instead of containing the error" % r[2]}
        rec["summary"] = "raised " + r[2]
        return rec
    after = [block_view(x) for x in r[1].blocks]
    ok, detail = len(before) == len(after), "number of blocks changed"
    if ok:
        detail = ""
        for x, y in zip(before, after):
            if x[0] in ("dup", "mwerr", "ParsingFailedBlock"):
                good, why = (x == y), "a failed / duplicate block changed"
            else:
                good, why = _scope_ok(x, y)
            if not good:
                ok, detail = False, "%s: %r -> %r" % (why, x, y)
                break
    rec["oracle"] = {"ok": ok, "detail": detail}
    rec["tags"] = ["options:" + inp["which"]]
    rec["summary"] = repr(after)[:200]
    return rec


def impl_userdefault(case):
    """libraries of the caller's own classes (and non-text values at every field position) through the middlewares with their
    DEFAULT converters; oracle only (pylatexenc is not modelled, user classes are not in the model)"""
    import implutil
    from bibtexparser.library import Library
    from bibtexparser.middlewares import LatexEncodingMiddleware, LatexDecodingMiddleware
    inp = case["input"]
    specs, mws = inp["lib"], inp["mws"]
    rec = {"sx_in": None, "sx_out": None, "key": json.dumps(["userdefault", specs, mws]), "nontrivial": True,
           "tags": ["userclass-default:" + ",".join("enc" if k == 0 else "dec" for k in mws)] + class_tags(specs)}

    def run(blocks, exact):
        lib = Library(blocks)
        views = [[block_view(b, exact) for b in lib.blocks]]
        for k in mws:
            lib = (LatexEncodingMiddleware() if k == 0 else LatexDecodingMiddleware()).transform(lib)
            views.append([block_view(b, exact) for b in lib.blocks])
        return views
    blocks = build_blocks18(specs)
    r = implutil.guarded(lambda: run(blocks, True))
    if r[0] == "exc":
        rec["oracle"] = {"ok": False, "detail": "LaTeX middleware raised %s instead of containing the error" % r[2]}
        rec["summary"] = "raised " + r[2]
        return rec
    views = r[1]
    rec["summary"] = repr(views[-1])[:200]
    ok, detail = True, ""
    # (1) scope and types, application by application
    for step in range(len(mws)):
        before, after = views[step], views[step + 1]
        if len(before) != len(after):
            ok, detail = False, "number of blocks changed"
            break
        for j, (x, y) in enumerate(zip(before, after)):
            if x[0] in ("dup", "mwerr", "ParsingFailedBlock"):
                good, why = (x == y), "a failed / duplicate block changed"
            else:
                good, why = _scope_ok(x, y)
            if not good:
                ok, detail = False, "application %d block %d: %s: %r -> %r" % (step, j, why, x, y)
                break
        if not ok:
            break
    # (2) the classes of the caller play no part: same result as on the library built from the plain classes
    if ok and has_user(specs):
        t = implutil.guarded(lambda: run(build_blocks18(plain_twin(specs)), False))
        mine = implutil.guarded(lambda: run(build_blocks18(specs), False))
        if t[0] == "exc" or mine[0] == "exc":
            ok, detail = False, "LaTeX middleware raised %s" % (t[2] if t[0] == "exc" else mine[2])
        elif t[1] != mine[1]:
            k = [a == b for a, b in zip(t[1], mine[1])].index(False)
            ok, detail = False, ("after %d application(s) the library of user-class instances is %r, the same library built from Entry / "
                                 "String / str / int is %r: text values of subclass instances are not converted alike"
                                 % (k, mine[1][k], t[1][k]))
    # (3) decode(encode(.)) = identity, block by block where every text is within the third party's reach
    if ok and list(mws) == [0, 1]:
        bad = third_party_not_injective()
        for j, s in enumerate(specs):
            if s["t"] not in ("entry", "string") or views[0][j][0] in ("dup",):
                continue
            texts = spec_texts([s])
            if all(allowed_text(x) and not any(c in bad for c in x) and rt_known_class(x, True, True) is None and pristine_roundtrips(x)
                   for x in texts):
                if views[2][j] != views[0][j]:
                    ok, detail = False, "decode(encode(.)) with the default options: block %d %r became %r (encoded: %r)" % (
                        j, views[0][j], views[2][j], views[1][j])
                    break
                rec["tags"].append("userclass-default:roundtrip-block-checked")
            else:
                rec["tags"].append("userclass-default:roundtrip-block-excluded")
    rec["tags"] = sorted(set(rec["tags"]))
    rec["oracle"] = {"ok": ok, "detail": detail}
    return rec


_THIRD_PARTY_BAD = None


def third_party_not_injective():
    """single characters of the accented range and of the letter sweep that pristine pylatexenc (called directly, no
    repository code) does not round-trip"""
    global _THIRD_PARTY_BAD
    if _THIRD_PARTY_BAD is None:
        from pylatexenc.latexencode import UnicodeToLatexEncoder
        from pylatexenc.latex2text import LatexNodes2Text
        e, d = UnicodeToLatexEncoder(), LatexNodes2Text()
        _THIRD_PARTY_BAD = set(c for c in sorted(set(ACCENTED) | set(SWEEP)) if d.latex_to_text(e.unicode_to_latex(c)) != c)
    return _THIRD_PARTY_BAD


_PRISTINE = None


def split_math(text):
    """[(is math span, piece)] by TeX's own reading: a backslash takes the next character with it, a bare dollar toggles math"""
    out, cur, i, inm = [], "", 0, False
    while i < len(text):
        c = text[i]
        if c == "\\" and i + 1 < len(text):
            cur += text[i:i + 2]
            i += 2
            continue
        i += 1
        if c != "$":
            cur += c
        elif inm:
            out.append((True, cur + "$"))
            cur, inm = "", False
        else:
            if cur:
                out.append((False, cur))
            cur, inm = "$", True
    if cur:
        out.append((False, cur))
    return out


def pristine_roundtrips(text):
    """does pristine pylatexenc (called directly, no repository code) round-trip the value - both when everything is encoded
    (what keep_math=False asks for) and when the math spans are kept as they are and only the rest is encoded (keep_math=True),
    decoded with math kept verbatim (the decoding middleware's default)?  Otherwise the value is outside the third party's reach"""
    global _PRISTINE
    if _PRISTINE is None:
        from pylatexenc.latexencode import UnicodeToLatexEncoder
        from pylatexenc.latex2text import LatexNodes2Text
        _PRISTINE = (UnicodeToLatexEncoder(), LatexNodes2Text(), LatexNodes2Text(math_mode="verbatim"))
    e, d, dv = _PRISTINE
    try:
        full = e.unicode_to_latex(text)
        kept = "".join(p if m else e.unicode_to_latex(p) for m, p in split_math(text))
        return d.latex_to_text(full) == text and dv.latex_to_text(full) == text and dv.latex_to_text(kept) == text
    except Exception:  # noqa: BLE001
        return False


def sparse_tags(sp):
    """distribution of the sparse-markup stream: layout, set, and what pristine pylatexenc makes of the character(s): `markup` =
    the encoding differs from the character (the decoder has work to do), `plain` = it is passed through as it is"""
    pristine_roundtrips("")
    e = _PRISTINE[0]

    def needs(c):
        try:
            return e.unicode_to_latex(c) != c
        except Exception:  # noqa: BLE001
            return True
    n = sum(1 for c in sp["chars"] if needs(c))
    return ["sparse:layout:" + sp["layout"], "sparse:set:" + sp["set"],
            "sparse:chars-needing-markup:%d-of-%d" % (n, len(sp["chars"]))]


def k12_class(text):
    """K12: a TeX ligature sequence, one of the characters " ^, or an accented Latin letter that pristine pylatexenc does not
    round-trip as a single character"""
    return (not allowed_text(text)) or any(c in ACCENTED_SET and c in third_party_not_injective() for c in text)


def url_changes_when_read_as_latex(url):
    """K6, as narrowly as the input tells: the wrapped URL is handed to the LaTeX parser - does PRISTINE pylatexenc (no repository
    code; math kept verbatim, the decoding middleware's default) reading it as LaTeX return something else than the URL?  A URL
    whose specials all sit inside a complete $...$ span (`http://a.b/c,$x_1$`: a URL directly followed by punctuation and a math
    span is ONE blank-free run for the URL rule) comes back as it is: a change that breaks it is reported (narrowed in seeding
    round 12; before, every URL match holding one of % ~ & { } \\ $ was of the class)"""
    pristine_roundtrips("")
    try:
        return _PRISTINE[2].latex_to_text("{" + url + "}") != url
    except Exception:  # noqa: BLE001
        return True


def rt_known_class(text, keep_math, enclose_urls):
    # K5 = several spans: at least three dollars that can open / close a span - counted as the rule's one-character look-behind
    # counts them OR as TeX / the decoder counts them (a dollar after a DOUBLE backslash is escaped for the former, a delimiter
    # for the latter; found by the `rules` stream).  ONE span with \\$ inside is not of this class
    if keep_math and max(unescaped_dollars(text), tex_dollars(text)) >= 3:
        # (a narrower class was tried - "some text between two spans needs conversion" - and given up: the ways in which
        # several dollars derail the round trip ($$ display math, text after the last dollar, braces) are too many to
        # enumerate safely; the class stays as wide as the finding is stated)
        return "K5"
    if enclose_urls:
        for rx in URL_RE:
            for m in rx.finditer(text):
                if any(c in m.group(1) for c in "%~&{}\\$") and url_changes_when_read_as_latex(m.group(1)):
                    return "K6"
    if k12_class(text) and not pristine_roundtrips(text):
        # K12, as narrowly as the input tells: a text of the class that PRISTINE pylatexenc (no repository code) does not give
        # back either.  `a'b` or `- -` are of the class by their characters but round-trip: a change that breaks them is reported.
        # Narrowed in seeding round 12: a letter of the class INSIDE a wrapped URL (`http://a.b/c,` + U+0166: the URL rule takes the
        # whole blank-free run) goes raw into \url{...} and comes back: the text must be of the class without those letters, too
        rest = without_class_letters_in_wrapped_urls(text) if enclose_urls else text
        if rest == text or (k12_class(rest) and not pristine_roundtrips(rest)):
            return "K12"
    return None


def without_class_letters_in_wrapped_urls(text):
    bad = third_party_not_injective()
    for rx in URL_RE:
        text = rx.sub(lambda m: "".join(c for c in m.group(1) if not (c in ACCENTED_SET and c in bad)), text)
    return text


def impl_roundtrip(case):
    import implutil
    from bibtexparser.library import Library
    from bibtexparser.model import Entry, Field, String
    from bibtexparser.middlewares import LatexEncodingMiddleware, LatexDecodingMiddleware
    from bibtexparser.middlewares.names import NameParts
    inp = case["input"]
    text = inp["text"]
    km, eu = inp["opts"]
    rec = {"sx_in": None, "sx_out": None, "key": json.dumps(["roundtrip", text, inp["opts"]]), "nontrivial": True}
    bad = third_party_not_injective()
    if inp.get("drop"):
        # letter sweep: exactly the excluded single characters are taken out, every other letter of the value is checked
        text = "".join(c for c in text if c not in bad)
    words = [w for w in text.split(" ") if w] if inp.get("words") else []
    first = words or [text]
    # outside the alphabet the property names (letters beyond U+00C0-U+017F that the third-party tables do not invert; the
    # protected-region stream's own filter): excluded.  Inside it (ligature sequences, " ^, accented Latin letters) the text
    # IS run; a failure there is known finding K12
    sp_tags = sparse_tags(inp["sparse"]) if inp.get("sparse") else []
    if any(c in bad and c not in ACCENTED_SET for c in text) or (inp.get("pristine") and not pristine_roundtrips(text)):
        rec["oracle"] = {"ok": True, "detail": ""}
        rec["tags"] = ["roundtrip:excluded-third-party-noninjective"] + (["sparse:excluded-third-party-noninjective"] if sp_tags else []) + \
            (["urlrun:excluded-third-party-noninjective", "urlrun:excluded:sep:" + inp["urlrun"]["sep_class"]] if inp.get("urlrun") else [])
        rec["nontrivial"] = False
        rec["summary"] = "excluded"
        return rec

    def run():
        lib = Library([Entry("article", "k", [Field("title", text, 1), Field("author", NameParts(first=list(first), last=["x", text]), 2),
                                                Field("year", 1990, 3)], 0, "@raw"), String("s", text, 5, "@string")])
        lib = LatexEncodingMiddleware(keep_math=km, enclose_urls=eu).transform(lib)
        mid = [type(b).__name__ for b in lib.blocks], lib.blocks[0].fields[0].value if hasattr(lib.blocks[0], "fields") else None
        lib = LatexDecodingMiddleware().transform(lib)
        return lib, mid
    r = implutil.guarded(run)
    if r[0] == "exc":
        rec["oracle"] = {"ok": False, "detail": "round trip raised %s on %r" % (r[2], text)}
        rec["summary"] = "raised " + r[2]
        return rec
    lib, mid = r[1]
    ok, detail = True, ""
    names = [type(b).__name__ for b in lib.blocks]
    if names != ["Entry", "String"]:
        ok, detail = False, "blocks became %r" % names
    else:
        e, s = lib.blocks
        got = [e.fields[0].value, e.fields[1].value.first, e.fields[1].value.last, e.fields[2].value, s.value]
        want = [text, first, ["x", text], 1990, text]
        if got != want:
            ok, detail = False, "decode(encode(%r)) with keep_math=%r enclose_urls=%r gave %r (encoded: %r)" % (text, km, eu, got[0], mid[1])
            if got[0] == text:
                detail = "field value %r survives decode(encode(.)) with keep_math=%r enclose_urls=%r, but [NameParts first, last, year, " \
                         "@string value] = %r, expected %r" % (text, km, eu, got[1:], want[1:])
            lost = sorted(set(c for c in text if ord(c) > 127 and not any(c in str(g) for g in got)))
            if lost:
                detail += "; letters lost: %s" % ", ".join("%r (U+%04X)" % (c, ord(c)) for c in lost[:12])
    rec["oracle"] = {"ok": ok, "detail": detail}
    if not ok:
        known = rt_known_class(text, km is not False, eu is not False)
        if known:
            rec["oracle"]["known"] = known
        rec["tags"] = ["roundtrip-fail:" + (known or "UNKNOWN")]
    else:
        rec["tags"] = ["roundtrip:ok"] + (["roundtrip:k12-stream-ok"] if inp.get("k12") else []) + (["roundtrip:letter-sweep"] if inp.get("drop") and not inp.get("pristine") else []) + \
            (["roundtrip:escaped-special-inside-math"] if inp.get("pristine") and not sp_tags and not inp.get("urlrun") else [])
    if sp_tags:
        rec["tags"] = rec["tags"] + sp_tags + ["sparse:ok" if ok else "sparse-fail:" + (rec["oracle"].get("known") or "UNKNOWN")]
    if inp.get("urlrun"):
        from props import c18_urlrun
        rec["tags"] = rec["tags"] + c18_urlrun.tags(inp["urlrun"], mid[1], ok, rec["oracle"].get("known"),
                                                    rt_known_class(text, km is not False, eu is not False) if ok else None)
    rec["summary"] = repr(mid[1])[:200]
    return rec
