"""C14 - splitting names and merging them back is an inverse pair: person level, list level (known class K3), whole stack."""
import json

from props import names_common as nc

ENGINE = "names"
RULE = ("person level: every token sequence of length <= 4 (quick; <= 5 sampled in thorough) over the C13 alphabet and names of "
        "1-9 words with every case pattern in the three comma forms, and names of 1-5 words (6 in thorough) over 20 words that start "
        "with letters without case, titlecase letters, cased non-letters, digits of other scripts (stream person-unicode), "
        "parse -> merge_last_name_first -> parse; list level: values of "
        "1-6 persons (pattern names, short token names, names with a word 'and' to reach the known class K3) joined by and-variants, "
        "split -> parse -> merge -> join -> split -> parse; stack level: a BibTeX entry with author/editor/translator values through "
        "parse_string(append_middleware=[SeparateCoAuthors, SplitNameParts]) and write_string(prepend_middleware=[MergeNameParts, "
        "MergeCoAuthors]) and again parse_string; session level (oracle only): programs of 2-5 steps in which ONE set of the four "
        "middleware objects (allow_inplace_modification drawn per object) serves every parse_string / write_string call, over documents "
        "of 1-3 entries (sometimes one with an invalid name) whose persons come from a small pool written in several forms (as given, "
        "last-name-first, '~' or double blanks) so that name strings recur between steps, with edits by the caller in between: before "
        "writing, edits that keep every person a parsed person (abbreviated first names, first names exchanged, the same NameParts "
        "held twice, equal copies, persons dropped / reversed, values exchanged between fields), and after each round trip arbitrary "
        "in-place edits of the NameParts and lists handed out earlier; every step must re-parse (with the shared objects and with new "
        "ones) to the names that were written; streams *-space (all four levels): words that begin / end with, contain, or consist "
        "only of characters that are whitespace for CPython (str.strip / isspace: U+00A0, FF, VT, U+2003, U+0085, U+2028, FS-US, "
        "U+1680, U+2000-U+200A, U+2029, U+202F, U+205F, U+3000) but no separators for the name splitters, every token sequence of "
        "length <= 4 (5 in thorough) with one such character plus sampled names of 1-5 words in the three comma forms next to every "
        "real separator, in lists also glued to the word `and`, in the stack also at the two ends of the value; streams reconfig* "
        "(c14_reconf.py; oracle only, the final step of half of the sessions also through the model): programs in which ONE set of "
        "the four middleware objects is used 2-6 times (parse_string / write_string, Middleware.transform, transform_block, "
        "transform_entry; documents of 1-3 entries, recurring persons, sometimes an invalid name) and public configuration "
        "attributes are reassigned before the first use and between uses (MergeNameParts.style first <-> last, unknown styles, the "
        "same value, twice in a row; name_fields and allow_inplace_modification attempted - a tree that refuses the assignment "
        "keeps its configuration), objects constructed with non-default name_fields (the same for all four, or different), uses "
        "that raise (field values that are no names, SplitNameParts on unseparated names, unknown style) also as the first use; "
        "each use must do what new objects constructed with the configuration the public attributes show at that moment do, the "
        "written text must hold the merge (in the style shown) of the structured names, and a last-name-first write must re-parse "
        "to the same names; streams magic-* (c14_magic.py): MAGIC WORDS AS NAMES - `others`, `Others`, `et al.`, `et al`, `Et Al.`, "
        "`et. al.`, `et alii`, `and others`, `Jr`, `von`, `Anonymous`, months, numbers, the words of selfref.MAGIC_WORDS - alone, in "
        "other letter cases, with / without a final dot, braced, tied, last-name-first, reversed, and as the first / von / last / jr "
        "part of an ordinary name (all valid names with a non-empty last name by the independent name oracle), as the only / last / "
        "first / middle person of lists of 1-4 persons, several of them, the same one twice: every core person in every position, the "
        "rest sampled; person, list and stack level as above (model compared) and level mwpair (oracle only): the middleware pair "
        "through Middleware.transform with MergeNameParts(style='last') and (style='first'), and parse_string / write_string with "
        "style='first'; last-name-first must re-split into exactly the same persons and parts; first-name-first must do so where "
        "the independent references read the first-name-first texts joined by ` and ` as these very persons; streams lookalike-* "
        "(c14_lookalike.py): NAME WORDS THAT LOOK LIKE BIBTEX SYNTAX INSIDE BRACES - braced words / groups containing `@word {`, `@w{x}`, "
        "`@ {`, `@<TAB>{x}` (and near misses), ` = `, ` # `, commas, double quotes, `%`, ` and `, `~`, `--`, tabs, two blanks in a row, "
        "blanks at the edges, line breaks; the word as `{i}`, `X{i}`, `{i}x`, `x{i}`, `{{i}}`, `{a {i} b}`; alone and as a word of the "
        "first / von / last / jr part in all three comma forms with every kind of separator between the words; the same look-alikes "
        "at depth 0 between the words; as the only / last / first / middle person of lists of 1-4 persons, several, the same one "
        "twice: every inner text in every part, the rest sampled; person, list and stack level (model compared; the stack for the "
        "values that can be written to a file at all, i.e. without a block-start pattern: K2 / K11), level fnpair (the function pair "
        "in BOTH merge styles; oracle only) and level mwpair as above: whatever stands inside braces must come back character for "
        "character. "
        "distinct = distinct input text per level; non-trivial = the premises of the "
        "inverse law hold (valid names, non-empty last, no word ending in an odd number of backslashes) and some name has >= 2 words")
TRUSTED = ["the inverse laws are checked directly on the implementation's outputs (harness/props/c14.py), the known class K3 by "
           "names_common.in_k3"]
ASSUMPTIONS = ["CPython's str.isalpha / str.isupper enter the model as per-character flags",
               "the stack level reads the names back from the text produced by write_string with the default (plain) parse stack"]

WITNESS_K3 = "xx~and B C"
WITNESS_K10 = "{\\\\} \\\\{}"         # two words, each balanced for names.py, +1 / -1 for the splitter
WITNESS_K11 = "Z @a~{x}"              # merges to "@a {x}, Z": a block-start pattern appears
import re as _re
K2_RE = _re.compile(r"@\w*[ \t]*\{")


def splitter_brace_ok(text):
    """brace balance as the splitter's value scanner sees it: a brace directly after ANY backslash is no mark; the depth never
    goes below zero and ends at zero (then `{` + text + `}` is read as one braced value)"""
    depth, prev = 0, ""
    for line in text.split("\n"):            # merged_text joins the name fields by newlines: each is written as its own value
        depth, prev = 0, ""
        for c in line:
            if c in "{}" and prev != "\\":
                depth += 1 if c == "{" else -1
                if depth < 0:
                    return False
            prev = c
        if depth != 0:
            return False
    return True


def merged_text(names):
    """the text MergeNameParts (last-name-first) + MergeCoAuthors produce for the name fields, joined"""
    out = []
    for _, ds in names:
        ps = []
        for d in ds:
            vl = " ".join(d["von"] + d["last"])
            ps.append(", ".join(x for x in [vl, " ".join(d["jr"]), " ".join(d["first"])] if x))
        out.append(" and ".join(ps))
    return "\n".join(out)


def generate(rng, tier):
    from props import c13
    cases = []
    if tier == "quick":
        seqs = list(nc.token_sequences(nc.C13_TOKENS, 4, [5, 6], 8000, rng))
        n_list, n_stack, n_sess = 25000, 1500, 500
    else:
        seqs = list(nc.token_sequences(nc.C13_TOKENS, 4, [5, 6, 7], 150000, rng))
        n_list, n_stack, n_sess = 400000, 30000, 8000
    uniq = list(dict.fromkeys(seqs))
    pn = list(dict.fromkeys(c13.pattern_names(rng, tier)))
    for s in uniq + pn:
        cases.append({"stream": "person", "input": {"level": "person", "s": s}})
    # words whose first character is a letter without case, a cased character that is no letter, a titlecase letter, ...:
    # every way of reading "the case of a word" other than BibTeX's (first letter; not upper = lower) shows here
    un = unicode_names(rng, tier)
    for s in un:
        cases.append({"stream": "person-unicode", "input": {"level": "person", "s": s}})
    for s in ["AA bb CC dd", "aa BB cc", "Aa\\", "Aa\\\\, Bb", "bb Cc, Dd\\\\", "{\\'E}x yy Zz, Jr, Ww", WITNESS_K3]:
        cases.append({"stream": "witness", "input": {"level": "person", "s": s}})
    # list level
    cases.append({"stream": "witness", "input": {"level": "list", "s": WITNESS_K3}})
    cases.append({"stream": "witness", "input": {"level": "list", "s": "Aa,and bb"}})
    cases.append({"stream": "witness", "input": {"level": "list", "s": "AND Y X and Aa Bb"}})
    short = [s for s in uniq if len(s) <= 8]

    def adm_name(s):
        d = nc.spec_parse(s)
        return d is not None and admissible(d)
    short_ok = [s for s in short if adm_name(s)]
    andw = ["xx~and B C", "Aa,and bb", "AND Y X", "and", "Aa and~Bb", "bb~AND~Cc, Dd", "{and} Aa", "Aa, and, Bb"]
    joins = [" and ", " and ", " and ", " AND ", "  and\t", "\nand\n", " aNd ", " and and ", " and~", ", and "]
    for _ in range(n_list):
        n = rng.randint(1, 6)
        parts = []
        for i in range(n):
            r = rng.random()
            parts.append(rng.choice(pn) if r < 0.55 else rng.choice(short_ok) if r < 0.9 else rng.choice(short) if r < 0.93
                         else rng.choice(andw))
            if i + 1 < n:
                parts.append(rng.choice(joins))
        cases.append({"stream": "list", "input": {"level": "list", "s": "".join(parts)}})
    # whole stack
    good = [s for s in pn + short + un[::7] if adm_name(s) and nc.balanced(s) and "\\" not in s.replace("\\'", "")]
    for k in range(n_stack):
        fields = []
        keys = ["author", "editor", "translator", "title", "year"]
        rng.shuffle(keys)
        for key in keys[:rng.randint(1, 4)]:
            if key == "year":
                fields.append([key, str(rng.randint(1900, 2030))])
            elif key == "title":
                fields.append([key, rng.choice(["A Title and More", "On {and}", "Xx yy"])])
            else:
                n = rng.randint(1, 5)
                v = " and ".join(rng.choice(good) if rng.random() < 0.97 else rng.choice(["xx~and B C", "AND Y X", WITNESS_K10, WITNESS_K11, "{a\\\\} {b} \\\\{c}", "Y x@b~{c}"]) for _ in range(n))
                fields.append([key, v])
        cases.append({"stream": "stack", "input": {"level": "stack", "fields": fields}})
    for w in (WITNESS_K10, WITNESS_K11):
        cases.append({"stream": "witness", "input": {"level": "stack", "fields": [["author", w]]}})
    # sessions: one set of middleware objects for a whole multi-step program, results edited by the caller in between
    for _ in range(n_sess):
        cases.append({"stream": "session", "input": gen_session(rng, good, adm_name)})
    # words that begin / end with, or consist only of, characters that CPython calls whitespace (str.strip, str.isspace,
    # str.split(), \s) but that are no separators for the name splitters (these know ' ', TAB, CR, LF and, inside one name, '~'):
    # the merge side and the split side must agree on what a word is.  All four levels; generated last so that the streams
    # above draw the same random numbers as before.
    cases += space_cases(rng, tier, adm_name)
    # the configuration of a middleware object is read at call time: public attributes reassigned between the uses of ONE set
    # of objects, uses on one library after another, uses that raise (c14_reconf.py).  Appended last.
    from props import c14_reconf
    cases += c14_reconf.cases(rng, tier, good, adm_name, name_forms)
    # the BOUNDARY of the known class K3: names with a word `and` on which the unchanged library DOES round-trip, because in the
    # last-name-first text of the whole field that word has no name before it or no word after it (it ends the field, it carries
    # the section comma, it is the only word): `And One` -> `One, And`; `Beta, Jr, and`; `Cc, and` ...  A change that "protects"
    # such names, or that handles the word `and` differently anywhere, shows here and is NOT attributed to K3 (nc.in_k3 asks the
    # reference splitter).  List and stack level; appended last.
    edge = ["And One", "and Beta", "AND Y X", "Beta, Jr, and", "One, AND", "Cc, and", "Aa bb Cc, Dd And", "Aa Bb, aNd", "And", "and, Bb",
            "{And} One", "One, {and}", "Aa~And, Bb", "von And, And", "Bb Cc, Jr, Xx and"]
    edge = [e for e in edge if adm_name(e)]
    for e in edge:
        heads = [[]] + [[rng.choice(good)] for _ in range(2)] + [[rng.choice(good), rng.choice(good)]]
        for h in heads:
            v = " and ".join(h + [e])
            cases.append({"stream": "k3-boundary", "input": {"level": "list", "s": v}})
            cases.append({"stream": "k3-boundary", "input": {"level": "stack", "fields": [[rng.choice(["author", "editor", "translator"]), v]]}})
        cases.append({"stream": "k3-boundary", "input": {"level": "person", "s": e}})
    # MAGIC WORDS AS NAMES (c14_magic.py): `others`, `Others`, `et al.`, `Et Al.`, `et alii`, `and others`, `Jr`, `von`, `Anonymous`,
    # months, numbers, reserved keys ... as the only / last / first / middle person of 1..4: ordinary valid names for the name
    # middlewares, which no token alphabet produces.  Person, list and stack level (model compared) and level mwpair (the
    # middleware pair through transform and the stack, BOTH merge styles; oracle only).  Appended last.
    from props import c14_magic
    cases += c14_magic.cases(rng, tier, good, adm_name)
    # NAME WORDS THAT LOOK LIKE BIBTEX SYNTAX, INSIDE BRACES WHERE IT IS PROTECTED (c14_lookalike.py): braced words / groups with
    # `@word {`, `@w{x}`, `@ {`, `@<TAB>{x}`, ` = `, ` # `, a comma, a double quote, `%`, ` and `, `~`, `--`, a tab, two blanks in a row -
    # alone, as first / von / last / jr part, anywhere in lists of 1..4 persons; the same look-alikes at depth 0 between words.
    # Person, list, stack level (model compared), fnpair and mwpair (both merge styles; oracle only).  Appended last.
    from props import c14_lookalike
    cases += c14_lookalike.cases(rng, tier, good, adm_name)
    # NAME WORDS THAT CONTAIN THE VOCABULARY OF NAME FORMATTING (c14_fmtvocab.py): the part codes of BibTeX name templates inside
    # ordinary words and brace groups (`Bell`, `{Bell Labs}`, `{William}`, `{vv}`, `{ff }`, `{, jj}`, `{f.}`), Python placeholders
    # (`{first}`, `{0}`, `{}`, `%s`, `%(last)s`, `$last`, `${von}`), the attribute names, replacement escapes, and a word that stands
    # in two parts of the SAME name - as first / von / last / jr words, bare and braced, all comma forms, lists of 1..4 persons.
    # Person, list, stack level (model compared), fnpair and mwpair (both merge styles; oracle only).  Appended last.
    from props import c14_fmtvocab
    cases += c14_fmtvocab.cases(rng, tier, good, adm_name)
    return cases


UNI_WORDS = ["Aa", "bb", "\u00c9a", "\u00dfa", "\u0414\u0430", "\u0434\u0430", "\u5c71\u7530", "\u05d0\u05d1", "\u0639\u0644",
             "\u01c5x", "\u02b0x", "\u2167a", "\u2177a", "\u24b6b", "\u24d0B", "11", "\u0663A", "-a", "\u5c71A", "1\u5c71"]


def unicode_names(rng, tier):
    import itertools
    out = []
    for n in (1, 2):
        out += [" ".join(ws) for ws in itertools.product(UNI_WORDS, repeat=n)]
    for n, k in ((3, 2500), (4, 2500), (5, 1000)) if tier == "quick" else ((3, 8000), (4, 30000), (5, 30000), (6, 10000)):
        for _ in range(k):
            ws = [rng.choice(UNI_WORDS) for _ in range(n)]
            r = rng.random()
            if r < 0.6:
                out.append(" ".join(ws))
            elif r < 0.8:
                i = rng.randint(1, n - 1)
                out.append(" ".join(ws[:i]) + ", " + " ".join(ws[i:]))
            else:
                i = rng.randint(1, n - 2)
                j = rng.randint(i + 1, n - 1)
                out.append(" ".join(ws[:i]) + ", " + " ".join(ws[i:j]) + ", " + " ".join(ws[j:]))
    return list(dict.fromkeys(out))


# ------------------------------------------------------------------ whitespace that is no separator
# isspace() is True for all of these; none of them separates words or persons for the name splitters
ODD_MAIN = [chr(c) for c in (0xA0, 0x0C, 0x0B, 0x2003, 0x85, 0x2028)]
ODD_MORE = [chr(c) for c in (0x1C, 0x1D, 0x1E, 0x1F, 0x1680, 0x2000, 0x2009, 0x200A, 0x2029, 0x202F, 0x205F, 0x3000)]
# for contrast: invisible, but no whitespace for CPython either (zero width space, BOM, Mongolian vowel separator, word joiner)
ODD_INVISIBLE = [chr(c) for c in (0x200B, 0xFEFF, 0x180E, 0x2060)]
SPACE_BASE = ["Aa", "bb", "{Cc}", ",", " ", "~"]
SPACE_WORDS = ["Aa", "Bb", "cc", "dd", "{Ee}", "{\\'E}x", "J.", "de", "11", "Jr"]
SPACE_SEPS = [" ", " ", " ", " ", "~", "  ", "\t", "\n", "\r\n", " ~"]


def odd_char(rng):
    r = rng.random()
    return rng.choice(ODD_MAIN) if r < 0.7 else rng.choice(ODD_MORE) if r < 0.95 else rng.choice(ODD_INVISIBLE)


def space_word(rng, w):
    """a word with such a character before it, after it, on both sides, inside it, or a word made of such characters only"""
    o = odd_char(rng)
    r = rng.random()
    if r < 0.3:
        return o + w
    if r < 0.6:
        return w + o
    if r < 0.7:
        return o + w + odd_char(rng)
    if r < 0.85:
        return o * rng.choice([1, 1, 2]) if rng.random() < 0.8 else o + odd_char(rng)
    return w[:1] + o + w[1:]


def space_name(rng, nmax=5):
    """1..nmax words, at least one of them a space_word, in one of the three comma forms; the separators between the
    words are the real ones in every variety, so the odd character stands next to a blank, a tie, a line break, a comma
    or the boundary of the name"""
    n = rng.randint(1, nmax)
    ws = [rng.choice(SPACE_WORDS) for _ in range(n)]
    forced = rng.randrange(n)
    ws = [space_word(rng, w) if i == forced or rng.random() < 0.3 else w for i, w in enumerate(ws)]
    commas = set()
    r = rng.random()
    if n >= 2 and r < 0.5:
        commas = set(rng.sample(range(1, n), 1 if r < 0.38 or n < 3 else 2))
    out = ws[0]
    for i in range(1, n):
        if i in commas:
            out += rng.choice([", ", ", ", ",", " ,", " , ", ",\n"])
        else:
            out += rng.choice(SPACE_SEPS)
        out += ws[i]
    return out


def space_cases(rng, tier, ok):
    import itertools
    quick = tier == "quick"
    cases = []
    # bounded-exhaustive: every token sequence of length <= 4 (5 in thorough) with one of the main characters as a token
    names = []
    for o in ODD_MAIN:
        for L in range(1, 5 if quick else 6):
            for seq in itertools.product(SPACE_BASE + [o], repeat=L):
                if o in seq:
                    names.append("".join(seq))
    sampled = [space_name(rng) for _ in range(3000 if quick else 60000)]
    for s in dict.fromkeys(names + sampled):
        cases.append({"stream": "person-space", "input": {"level": "person", "s": s}})
    for o in ODD_MAIN:
        for s in ("Smith," + o + "John", "Ada " + o + " Lovelace", "Jean " + o + "Paul Sartre", "Hans" + o + " Meier", o, o + o + " Aa",
                  "de" + o + " la Cc, Jr" + o + ", " + o + "Bb"):
            cases.append({"stream": "witness", "input": {"level": "person", "s": s}})
    # list level: such names (valid ones, by the independent name oracle) among ordinary ones; the word `and` with such a
    # character glued to it is no separator either
    pool = [s for s in dict.fromkeys(sampled + names[::5]) if ok(s)]
    plain = ["Aa Bb", "Bb, Aa", "cc Dd, Jr, Ee", "{Ee}", "Aa de Bb"]
    for _ in range(4000 if quick else 60000):
        n = rng.randint(1, 5)
        parts = []
        for i in range(n):
            parts.append(rng.choice(pool) if rng.random() < 0.7 else rng.choice(plain))
            if i + 1 < n:
                o = odd_char(rng)
                parts.append(rng.choice([" and ", " and ", " and ", " and ", "\nand\n", " AND ", "\tand  ", o + "and ", " and" + o,
                                         o + "and" + o, " " + o + "and ", " and " + o + " ", " " + o + " and ", " and " + o + "and "]))
        cases.append({"stream": "list-space", "input": {"level": "list", "s": "".join(parts)}})
    # whole stack: the same names as field values, also at the two ends of the value and of the line
    good = [s for s in pool if nc.balanced(s) and "\\" not in s.replace("\\'", "")]
    for _ in range(500 if quick else 8000):
        keys = list(NF)
        rng.shuffle(keys)
        fields = []
        for key in keys[:rng.randint(1, 3)]:
            n = rng.randint(1, 4)
            fields.append([key, " and ".join(rng.choice(good) if rng.random() < 0.75 else rng.choice(plain) for _ in range(n))])
        if rng.random() < 0.3:
            fields.insert(rng.randint(0, len(fields)), ["title", "Xx" + odd_char(rng) + " and " + odd_char(rng) + "yy"])
        cases.append({"stream": "stack-space", "input": {"level": "stack", "fields": fields}})
    for o in ODD_MAIN:
        cases.append({"stream": "witness", "input": {"level": "stack", "fields": [["author", "Smith," + o + "John and Ada " + o + " Lovelace"],
                                                                                  ["editor", o + "Aa Bb" + o]]}})
    # sessions whose pool of persons contains such names
    for _ in range(120 if quick else 1500):
        cases.append({"stream": "session-space", "input": gen_session(rng, good, ok)})
    return cases


def odd_edge(dicts):
    """some word begins or ends with a character that is whitespace for CPython"""
    return any(w and (w[0].isspace() or w[-1].isspace()) for d in dicts for w in nc.all_words(d))


# ------------------------------------------------------------------ sessions (oracle only)
NF = ("author", "editor", "translator")
SESSION_BAD = ["Aa, Bb, Cc, Dd", "Aa Bb,", "Aa Bb and Cc, Dd, Ee, Ff", "bb Cc,, Dd,, Ee"]


def name_forms(s, ok):
    """the same person written in several ways (generator side only; what the forms parse to is not assumed anywhere)"""
    d = nc.spec_parse(s)
    out = [s]
    if d is not None:
        lf = ", ".join(x for x in (" ".join(d["von"] + d["last"]), " ".join(d["jr"]), " ".join(d["first"])) if x)
        out += [lf, lf.replace(", ", ","), lf.replace(" ", "  "), " ".join(d["first"] + d["von"] + d["last"])]
    out += [s.replace(" ", "~"), s.replace(" ", "  "), s.replace("~", " ")]
    return [v for v in dict.fromkeys(out) if v.strip() == v and ok(v) and nc.balanced(v)]


def gen_session(rng, good, ok):
    pool = [name_forms(rng.choice(good), ok) for _ in range(rng.randint(2, 5))]
    pool = [f for f in pool if f] or [["Aa Bb"]]

    def value():
        return " and ".join(rng.choice(rng.choice(pool)) for _ in range(rng.randint(1, 4)))

    def doc():
        entries = []
        for _ in range(rng.randint(1, 3)):
            keys = list(NF)
            rng.shuffle(keys)
            fields = [[k, value()] for k in keys[:rng.randint(1, 3)]]
            if rng.random() < 0.3:
                fields.insert(rng.randint(0, len(fields)), ["title", rng.choice(["A Title and More", "On {and}", "Xx yy"])])
            entries.append(fields)
        if rng.random() < 0.2:     # a block on which the name middleware fails, somewhere among the others
            keys = list(NF)
            rng.shuffle(keys)
            entries.insert(rng.randint(0, len(entries)), [[keys[0], rng.choice(SESSION_BAD)]] +
                           ([[keys[1], value()]] if rng.random() < 0.5 else []))
        return entries

    def pre_op():
        k = rng.choice(["abbrev", "abbrev", "swap_first", "dup", "reverse", "drop", "swap_fields", "fresh_obj", "fresh_list"])
        return [k, rng.randint(0, 7), rng.randint(0, 255), rng.randint(0, 2)]

    steps = []
    for _ in range(rng.randint(2, 5)):
        d = [list(map(list, e)) for e in rng.choice(steps)["doc"]] if steps and rng.random() < 0.35 else doc()
        pre = [pre_op() for _ in range(rng.randint(1, 3))] if rng.random() < 0.4 else []
        post = [["scribble", rng.randint(0, 2), rng.randint(0, 3), rng.choice([255, 255, rng.randint(1, 255)])]
                for _ in range(rng.choice([0, 1, 1, 2, 3]))]
        if rng.random() < 0.25:
            post.append(["lists", rng.randint(0, 2), rng.randint(0, 1), 255])
        steps.append({"doc": d, "pre": pre, "post": post})
    inplace = [1, 1, 1, 1] if rng.random() < 0.6 else [rng.randint(0, 1) for _ in range(4)]
    return {"level": "session", "inplace": inplace, "steps": steps}


def shrink(case):
    inp = case["input"]
    if inp["level"] in ("mwpair", "fnpair"):
        from props import c14_magic
        yield from c14_magic.shrink(case)
        return
    if inp["level"] == "reconfig":
        from props import c14_reconf
        yield from c14_reconf.shrink(case)
        return
    if inp["level"] == "session":
        st = inp["steps"]
        for i in range(len(st)):
            if len(st) > 1:
                yield {"stream": "session", "input": dict(inp, steps=st[:i] + st[i + 1:])}
        for i, x in enumerate(st):
            for k in ("pre", "post"):
                if x[k]:
                    yield {"stream": "session", "input": dict(inp, steps=st[:i] + [dict(x, **{k: []})] + st[i + 1:])}
        return
    if inp["level"] in ("person", "list"):
        s = inp["s"]
        for i in range(len(s)):
            yield {"stream": case.get("stream", "?"), "input": {"level": inp["level"], "s": s[:i] + s[i + 1:]}}
    else:
        fs = inp["fields"]
        for i in range(len(fs)):
            yield {"stream": "stack", "input": {"level": "stack", "fields": fs[:i] + fs[i + 1:]}}
        for i, (k, v) in enumerate(fs):
            ns = v.split(" and ")
            for j in range(len(ns)):
                if len(ns) > 1:
                    yield {"stream": "stack", "input": {"level": "stack", "fields": fs[:i] + [[k, " and ".join(ns[:j] + ns[j + 1:])]] + fs[i + 1:]}}


def admissible(d):
    return bool(d["last"]) and not any(nc.ends_odd_backslash(w) for w in nc.all_words(d))


def impl(case):
    rec = impl_level(case)
    kind = case["input"].get("magic")
    if kind and isinstance(rec.get("tags"), list):
        # streams magic-*: where the magic person stands in the list (distribution of the evidence file)
        rec["tags"].append("magic_person_is:%s" % kind)
    look = case["input"].get("lookalike")
    if look and isinstance(rec.get("tags"), list):
        # streams lookalike-*: kind of look-alike / part of the person it stands in / where that person stands in the list
        bits = look.split("/")
        rec["tags"].append("lookalike_kind:%s" % bits[0])
        if len(bits) > 1:
            rec["tags"].append("lookalike_part:%s" % bits[1])
        if len(bits) > 2:
            rec["tags"].append("lookalike_person_is:%s" % bits[2])
    voc = case["input"].get("fmtvocab")
    if voc and isinstance(rec.get("tags"), list):
        # streams fmtvocab-*: kind of formatting vocabulary / part of the person it stands in / where that person stands in the list
        bits = voc.split("/")
        rec["tags"].append("fmtvocab_kind:%s" % bits[0])
        if len(bits) > 1:
            rec["tags"].append("fmtvocab_part:%s" % bits[1])
        if len(bits) > 2:
            rec["tags"].append("fmtvocab_person_is:%s" % bits[2])
    return rec


def impl_level(case):
    import enc
    import implutil
    from props.c13 import enc_parts_dict, REASONS
    from bibtexparser.middlewares.names import (InvalidNameError, NameParts, parse_single_name_into_parts as pn,
                                                split_multiple_persons_names as sp)
    inp = case["input"]
    if inp["level"] == "session":
        return impl_session(case)
    if inp["level"] == "reconfig":
        from props import c14_reconf
        return c14_reconf.impl(case)
    if inp["level"] == "mwpair":
        from props import c14_magic
        return c14_magic.impl(case)
    if inp["level"] == "fnpair":
        from props import c14_lookalike
        return c14_lookalike.impl(case)

    def parse(s):
        """('ok', dict) | ('inv', code); other exceptions propagate"""
        try:
            return ("ok", nc.parts_dict(pn(s)))
        except InvalidNameError as e:
            msg = str(e)
            return ("inv", next((v for k, v in REASONS.items() if msg.endswith(": " + k)), 0))

    def enc_res(r):
        return [0, enc_parts_dict(enc, r[1])] if r[0] == "ok" else [1, r[1]]

    def merge(d):
        return NameParts(first=d["first"], von=d["von"], last=d["last"], jr=d["jr"]).merge_last_name_first

    if inp["level"] == "person":
        s = inp["s"]
        rec = {"sx_in": [86, enc.enc_str(s)], "key": "p" + json.dumps(s), "tags": []}

        def run():
            r = parse(s)
            if r[0] != "ok":
                return [r]
            m = merge(r[1])
            return [r, m, parse(m)]
        g = implutil.guarded(run)
        if g[0] == "exc":
            rec["sx_out"] = implutil.r_exc(g[1])
            rec["oracle"] = {"ok": False, "detail": "%s raised on %r" % (g[2], s)}
            rec["nontrivial"] = True
            rec["summary"] = "raised " + g[2]
            return rec
        out = g[1]
        if len(out) == 1:
            rec["sx_out"] = implutil.r_ok([enc_res(out[0])])
            rec["oracle"] = {"ok": True, "detail": "invalid name: law not applicable"}
            rec["nontrivial"] = False
            rec["tags"].append("person_invalid")
            rec["summary"] = "invalid"
            return rec
        r, m, r2 = out
        rec["sx_out"] = implutil.r_ok([enc_res(r), enc.enc_str(m), enc_res(r2)])
        adm = admissible(r[1])
        ok, detail = True, ""
        if adm and r2 != r:
            ok, detail = False, "person inverse: %r -> %r -> merged %r -> %r" % (s, r[1], m, r2)
        rec["oracle"] = {"ok": ok, "detail": detail}
        rec["nontrivial"] = adm and len(nc.all_words(r[1])) >= 2
        rec["tags"].append("person_admissible" if adm else "person_outside_premises")
        if odd_edge([r[1]]):
            rec["tags"].append("word_edge_is_python_whitespace")
        rec["summary"] = repr((m, r2))[:200]
        return rec

    if inp["level"] == "list":
        v = inp["s"]
        rec = {"sx_in": [87, enc.enc_str(v)], "key": "l" + json.dumps(v), "tags": []}

        def run():
            names = sp(v)
            ps = [parse(n) for n in names]
            if any(p[0] != "ok" for p in ps):
                return [names, ps]
            v2 = " and ".join(merge(p[1]) for p in ps)
            names2 = sp(v2)
            return [names, ps, v2, names2, [parse(n) for n in names2]]
        g = implutil.guarded(run)
        if g[0] == "exc":
            rec["sx_out"] = implutil.r_exc(g[1])
            rec["oracle"] = {"ok": False, "detail": "%s raised on %r" % (g[2], v)}
            rec["nontrivial"] = True
            rec["summary"] = "raised " + g[2]
            return rec
        out = g[1]
        es = lambda l: [enc.enc_str(x) for x in l]
        if len(out) == 2:
            rec["sx_out"] = implutil.r_ok([es(out[0]), [enc_res(p) for p in out[1]]])
            rec["oracle"] = {"ok": True, "detail": "some name invalid: law not applicable"}
            rec["nontrivial"] = False
            rec["tags"].append("list_invalid")
            rec["summary"] = "invalid"
            return rec
        names, ps, v2, names2, ps2 = out
        rec["sx_out"] = implutil.r_ok([es(names), [enc_res(p) for p in ps], enc.enc_str(v2), es(names2), [enc_res(p) for p in ps2]])
        dicts = [p[1] for p in ps]
        adm = all(admissible(d) for d in dicts)
        k3 = nc.in_k3(dicts)
        ok, detail = True, ""
        if adm and ps2 != ps:
            ok, detail = False, "list inverse: %r -> %d persons -> merged %r -> %d persons %r" % (v, len(ps), v2, len(ps2), names2)
        orc = {"ok": ok, "detail": detail}
        if not ok and k3:
            orc["known"] = "K3"
        rec["oracle"] = orc
        rec["nontrivial"] = adm and any(len(nc.all_words(d)) >= 2 for d in dicts)
        rec["tags"].append("list_admissible" if adm else "list_outside_premises")
        if k3:
            rec["tags"].append("list_in_K3_class")
        if odd_edge(dicts):
            rec["tags"].append("word_edge_is_python_whitespace")
        rec["tags"].append("persons=%d" % len(ps))
        rec["summary"] = repr((v2, names2))[:200]
        return rec

    # ---- whole stack
    return stack_case(inp["fields"])


def stack_case(fields, mws=None):
    """the stack level on one entry; mws = (SeparateCoAuthors, SplitNameParts, MergeNameParts, MergeCoAuthors) instances to use
    for the parse and the write (None: new default ones, as the property states it); the re-parse always uses new ones"""
    import enc
    import implutil
    import bibtexparser
    from bibtexparser.middlewares.names import SeparateCoAuthors, SplitNameParts, MergeNameParts, MergeCoAuthors
    text = "@article{key1,\n" + ",\n".join("  %s = {%s}" % (k, v) if k != "year" else "  %s = %s" % (k, v) for k, v in fields) + "\n}\n"
    rec = {"key": "s" + json.dumps(fields), "tags": ["stack"], "nontrivial": True}
    abstract = ()

    def run():
        plain = bibtexparser.parse_string(text)
        sep, spl, mp, mc = mws if mws is not None else (SeparateCoAuthors(), SplitNameParts(), MergeNameParts(), MergeCoAuthors())
        lib1 = bibtexparser.parse_string(text, append_middleware=[sep, spl])
        snap1 = enc.enc_block(lib1.blocks[0], abstract)
        names1 = None
        if type(lib1.blocks[0]).__name__ == "Entry":
            names1 = [(f.key, [nc.parts_dict(p) for p in f.value]) for f in lib1.blocks[0].fields if f.key in NF]
        text2 = bibtexparser.write_string(lib1, prepend_middleware=[mp, mc])
        plain2 = bibtexparser.parse_string(text2)
        lib2 = bibtexparser.parse_string(text2, append_middleware=[SeparateCoAuthors(), SplitNameParts()])
        return plain, snap1, names1, text2, plain2, lib2
    g = implutil.guarded(run)
    if g[0] == "exc":
        rec["sx_in"] = None
        rec["oracle"] = {"ok": False, "detail": "%s raised through the stack on %r" % (g[2], text)}
        rec["summary"] = "raised " + g[2]
        return rec
    plain, snap1, names1, text2, plain2, lib2 = g[1]
    if len(plain.blocks) != 1 or type(plain.blocks[0]).__name__ != "Entry":
        rec["sx_in"] = None
        rec["oracle"] = {"ok": False, "detail": "harness: generated text did not parse as one entry: %r" % text}
        rec["summary"] = "not an entry"
        return rec
    rec["sx_in"] = [91, enc.enc_block(plain.blocks[0], abstract)]
    if names1 is None:
        rec["sx_out"] = implutil.r_ok([snap1, []])
        rec["oracle"] = {"ok": True, "detail": "an invalid name: error block, law not applicable"}
        rec["tags"].append("stack_invalid")
        rec["summary"] = "error block"
        return rec
    vals2 = [enc.enc_value(f.value) for f in plain2.blocks[0].fields] if len(plain2.blocks) == 1 and \
        type(plain2.blocks[0]).__name__ == "Entry" else [[-9]]
    rec["sx_out"] = implutil.r_ok([snap1, [vals2]])
    ok, detail = True, ""
    dicts = [d for _, ds in names1 for d in ds]
    adm = all(admissible(d) for d in dicts)
    names2 = None
    if len(lib2.blocks) == 1 and type(lib2.blocks[0]).__name__ == "Entry":
        try:
            names2 = [(f.key, [nc.parts_dict(p) for p in f.value]) for f in lib2.blocks[0].fields if f.key in NF]
        except Exception:  # noqa: BLE001
            names2 = None
    if adm and names2 != names1:
        ok, detail = False, "stack inverse: %r -> %r -> written %r -> %r" % (text, names1, text2, names2)
    orc = {"ok": ok, "detail": detail}
    if not ok and nc.in_k3(dicts):
        orc["known"] = "K3"
    elif not ok and any("\\\\" in w for d in dicts for part in d.values() for w in part) and not splitter_brace_ok(merged_text(names1)):
        # K10, as narrowly as the input tells: a word with two adjacent backslashes (names.py and the splitter read the brace
        # after it differently) AND the merged text is not brace-balanced under the SPLITTER's escape rule, so that the written
        # field closes early or never.  A double backslash that does not unbalance the written field is not in the class.
        orc["known"] = "K10"
    elif not ok and K2_RE.search(merged_text(names1)):
        orc["known"] = "K11"          # the merged (last-name-first) text contains a block-start pattern
    rec["oracle"] = orc
    if any("\\\\" in w for d in dicts for part in d.values() for w in part) or K2_RE.search(merged_text(names1)):
        # op 91 models the write / re-parse legs as the identity on the merged text, which is what C14_stack_field_roundtrip
        # proves under `writable`; inputs of the two known classes are exactly those outside it: Python oracle only
        rec["skip"] = True
    rec["tags"].append("stack_admissible" if adm else "stack_outside_premises")
    if odd_edge(dicts):
        rec["tags"].append("word_edge_is_python_whitespace")
    rec["summary"] = repr(text2)[:200]
    return rec


def impl_session(case):
    """One program: the four middleware objects are created once and serve every parse_string / write_string call of the
    session; between the calls the caller edits the structured names it was handed.  Property, per step: the library as it is
    written (names of parsed persons only) re-parses - with the shared objects and with new ones - to the same structured names."""
    import dataclasses
    import hashlib
    import implutil
    import bibtexparser
    from bibtexparser.model import Entry
    from bibtexparser.middlewares.names import SeparateCoAuthors, SplitNameParts, MergeNameParts, MergeCoAuthors, NameParts
    inp = case["input"]
    steps = inp["steps"]
    ip = [bool(x) for x in inp.get("inplace", [1, 1, 1, 1])]
    rec = {"sx_in": None, "sx_out": None, "key": "S" + hashlib.sha1(json.dumps(inp, sort_keys=True).encode()).hexdigest(),
           "tags": ["session", "session_steps=%d" % len(steps)], "nontrivial": False}
    if ip != [True] * 4:
        rec["tags"].append("session_some_inplace_false")
    PARSE = [SeparateCoAuthors(allow_inplace_modification=ip[0]), SplitNameParts(allow_inplace_modification=ip[1])]
    WRITE = [MergeNameParts(allow_inplace_modification=ip[2]), MergeCoAuthors(allow_inplace_modification=ip[3])]

    def doc_text(doc):
        return "".join("@article{e%d,\n%s\n}\n\n" % (i, ",\n".join("  %s = {%s}" % (k, v) for k, v in fs)) for i, fs in enumerate(doc))

    def name_fields(lib):
        return [(b.key, f) for b in lib.blocks if isinstance(b, Entry) for f in b.fields if f.key in NF]

    def names_of(lib):
        out = {}
        for ek, f in name_fields(lib):
            if isinstance(f.value, list) and all(isinstance(p, NameParts) for p in f.value):
                out["%s.%s" % (ek, f.key)] = [nc.parts_dict(p) for p in f.value]
            else:
                out["%s.%s" % (ek, f.key)] = "not a list of NameParts: %r" % (f.value,)
        return out

    def handed(lib):
        fs = [f for _, f in name_fields(lib) if isinstance(f.value, list)]
        return [p for f in fs for p in f.value if isinstance(p, NameParts)], [f.value for f in fs]

    def copy_of(p):
        return NameParts(first=list(p.first), von=list(p.von), last=list(p.last), jr=list(p.jr))

    def apply_pre(op, lib):
        """edits that keep every person the parse of some name (so the law still speaks about the library)"""
        kind, a, b, c = op
        fs = [f for _, f in name_fields(lib) if isinstance(f.value, list) and f.value]
        persons = [p for f in fs for p in f.value]
        if not persons:
            return
        f = fs[a % len(fs)]
        v = f.value
        if kind == "abbrev":
            for i, p in enumerate(persons):
                if (b >> (i % 8)) & 1:
                    new = [w[0] + "." if len(w) > 1 and w.isascii() and w.isalpha() else w for w in p.first]
                    if c == 0:
                        p.first[:] = new
                    else:
                        p.first = new
        elif kind == "swap_first":
            pa, pb = persons[a % len(persons)], persons[b % len(persons)]
            if pa.first and pb.first:
                pa.first, pb.first = pb.first, pa.first
        elif kind == "dup":
            i = b % len(v)
            if c == 0:
                v.append(v[i])                          # the same object held twice
            elif c == 1:
                v.insert(i, dataclasses.replace(v[i]))  # another object sharing the word lists
            else:
                v.append(copy_of(v[i]))                 # equal, not identical
        elif kind == "reverse":
            v.reverse()
        elif kind == "drop":
            if len(v) > 1:
                del v[b % len(v)]
        elif kind == "swap_fields":
            g = fs[b % len(fs)]
            f.value, g.value = g.value, f.value
        elif kind == "fresh_obj":
            v[b % len(v)] = copy_of(v[b % len(v)])
        elif kind == "fresh_list":
            f.value = list(v)

    def scribble(p, kind):
        if kind == 0:
            p.first.insert(0, "Qq")
            p.last.append("Zz")
        elif kind == 1:
            p.first, p.von, p.jr = ["Qq"], ["zz"], ["Jr"]
        elif kind == 2:
            for lst in (p.first, p.von, p.last, p.jr):
                del lst[:]
            p.last.append("Xx")
        else:
            p.first, p.last = p.last, p.first

    def apply_post(op, hs):
        kind, which, k, sel = op
        persons, lists = hs[which % len(hs)]
        if kind == "scribble":
            for i, p in enumerate(persons):
                if (sel >> (i % 8)) & 1:
                    scribble(p, k)
        else:
            for lst in lists:
                if k == 0:
                    del lst[:]
                else:
                    lst.reverse()

    def run_step(st):
        text = doc_text(st["doc"])
        lib1 = bibtexparser.parse_string(text, append_middleware=PARSE)
        got1 = names_of(lib1)
        for op in st["pre"]:
            apply_pre(op, lib1)
        before = names_of(lib1)
        h1 = handed(lib1)
        text2 = bibtexparser.write_string(lib1, prepend_middleware=WRITE)
        lib2 = bibtexparser.parse_string(text2, append_middleware=PARSE)
        after = names_of(lib2)
        lib3 = bibtexparser.parse_string(text2, append_middleware=[SeparateCoAuthors(), SplitNameParts()])
        fresh = names_of(lib3)
        hs = [h1, handed(lib2), handed(lib3)]
        for op in st["post"]:          # the caller goes on editing what it was handed; nothing of it is used again
            apply_post(op, hs)
        return text, got1, before, text2, after, fresh

    seen, recurs = set(), False
    verdict = None
    for k, st in enumerate(steps):
        g = implutil.guarded(lambda: run_step(st))
        if g[0] == "exc":
            verdict = {"ok": False, "detail": "session step %d of %d: %s raised (document %r)" % (k + 1, len(steps), g[2], doc_text(st["doc"]))}
            break
        text, got1, before, text2, after, fresh = g[1]
        # entries made of valid names only (independent name oracle) must be there after the first parse
        for i, fs in enumerate(st["doc"]):
            vals = [(fk, nc.ref_split(v)) for fk, v in fs if fk in NF]
            if all(nc.spec_parse(n) is not None for _, ns in vals for n in ns):
                for fk, ns in vals:
                    if "e%d.%s" % (i, fk) not in got1:
                        verdict = {"ok": False, "detail": "session step %d of %d: e%d.%s = %r (valid names) was not split into "
                                   "structured names; document %r" % (k + 1, len(steps), i, fk, ns, text)}
            for _, ns in vals:
                for n in ns:
                    recurs = recurs or n in seen
        if verdict:
            break
        for fs in st["doc"]:
            for fk, v in fs:
                if fk in NF:
                    seen.update(nc.ref_split(v))
        bad_shape = [x for x in before.values() if not isinstance(x, list)]
        dicts = [d for x in before.values() if isinstance(x, list) for d in x]
        for d in dicts:
            seen.add(", ".join(x for x in (" ".join(d["von"] + d["last"]), " ".join(d["jr"]), " ".join(d["first"])) if x))
        adm = not bad_shape and all(admissible(d) for d in dicts)
        if adm and dicts and any(len(nc.all_words(d)) >= 2 for d in dicts) and len(steps) >= 2:
            rec["nontrivial"] = True
        if bad_shape:
            verdict = {"ok": False, "detail": "session step %d of %d: %s; document %r" % (k + 1, len(steps), bad_shape[0], text)}
            break
        if adm:
            for label, again in (("the same middleware objects", after), ("new middleware objects", fresh)):
                if again != before:
                    key = next(x for x in sorted(set(before) | set(again)) if before.get(x) != again.get(x))
                    verdict = {"ok": False, "detail": "session step %d of %d (middleware objects shared by all steps, "
                               "allow_inplace_modification=%r): %s written as %r and re-parsed with %s gives %r; written document %r"
                               % (k + 1, len(steps), ip, key, before.get(key), label, again.get(key), text2)}
                    if nc.in_k3(dicts):
                        verdict["known"] = "K3"
                    break
            if verdict:
                break
        else:
            rec["tags"].append("session_step_outside_premises")
    if recurs:
        rec["tags"].append("session_name_string_recurs")
    if any(st["pre"] for st in steps):
        rec["tags"].append("session_edited_before_write")
    rec["oracle"] = verdict or {"ok": True, "detail": ""}
    rec["summary"] = "session of %d steps: %s" % (len(steps), "ok" if verdict is None else verdict["detail"][:160])
    return rec
