"""C14 - splitting names and merging them back is an inverse pair: person level, list level (known class K3), whole stack."""
import json

from props import names_common as nc

ENGINE = "names"
RULE = ("person level: every token sequence of length <= 4 (quick; <= 5 sampled in thorough) over the C13 alphabet and names of "
        "1-9 words with every case pattern in the three comma forms, parse -> merge_last_name_first -> parse; list level: values of "
        "1-6 persons (pattern names, short token names, names with a word 'and' to reach the known class K3) joined by and-variants, "
        "split -> parse -> merge -> join -> split -> parse; stack level: a BibTeX entry with author/editor/translator values through "
        "parse_string(append_middleware=[SeparateCoAuthors, SplitNameParts]) and write_string(prepend_middleware=[MergeNameParts, "
        "MergeCoAuthors]) and again parse_string. distinct = distinct input text per level; non-trivial = the premises of the "
        "inverse law hold (valid names, non-empty last, no word ending in an odd number of backslashes) and some name has >= 2 words")
TRUSTED = ["the inverse laws are checked directly on the implementation's outputs (harness/props/c14.py), the known class K3 by "
           "names_common.in_k3"]
ASSUMPTIONS = ["CPython's str.isalpha / str.isupper enter the model as per-character flags",
               "the stack level reads the names back from the text produced by write_string with the default (plain) parse stack"]

WITNESS_K3 = "xx~and B C"


def generate(rng, tier):
    from props import c13
    cases = []
    if tier == "quick":
        seqs = list(nc.token_sequences(nc.C13_TOKENS, 4, [5, 6], 8000, rng))
        n_list, n_stack = 25000, 1500
    else:
        seqs = list(nc.token_sequences(nc.C13_TOKENS, 4, [5, 6, 7], 150000, rng))
        n_list, n_stack = 400000, 30000
    uniq = list(dict.fromkeys(seqs))
    pn = list(dict.fromkeys(c13.pattern_names(rng, tier)))
    for s in uniq + pn:
        cases.append({"stream": "person", "input": {"level": "person", "s": s}})
    for s in ["AA bb CC dd", "aa BB cc", "Aa\\", "Aa\\\\, Bb", "bb Cc, Dd\\\\", "{\\'E}x yy Zz, Jr, Ww", WITNESS_K3]:
        cases.append({"stream": "witness", "input": {"level": "person", "s": s}})
    # list level
    cases.append({"stream": "witness", "input": {"level": "list", "s": WITNESS_K3}})
    cases.append({"stream": "witness", "input": {"level": "list", "s": "Aa,and bb"}})
    cases.append({"stream": "witness", "input": {"level": "list", "s": "AND Y X and Aa Bb"}})
    short = [s for s in uniq if len(s) <= 8]

    def adm_name(s):
        d = nc.spec_parse(s)
        return d is not None and admissible(d)
    short_ok = [s for s in short if adm_name(s)]
    andw = ["xx~and B C", "Aa,and bb", "AND Y X", "and", "Aa and~Bb", "bb~AND~Cc, Dd", "{and} Aa", "Aa, and, Bb"]
    joins = [" and ", " and ", " and ", " AND ", "  and\t", "\nand\n", " aNd ", " and and ", " and~", ", and "]
    for _ in range(n_list):
        n = rng.randint(1, 6)
        parts = []
        for i in range(n):
            r = rng.random()
            parts.append(rng.choice(pn) if r < 0.55 else rng.choice(short_ok) if r < 0.9 else rng.choice(short) if r < 0.93
                         else rng.choice(andw))
            if i + 1 < n:
                parts.append(rng.choice(joins))
        cases.append({"stream": "list", "input": {"level": "list", "s": "".join(parts)}})
    # whole stack
    good = [s for s in pn + short if adm_name(s) and nc.balanced(s) and "\\" not in s.replace("\\'", "")]
    for k in range(n_stack):
        fields = []
        keys = ["author", "editor", "translator", "title", "year"]
        rng.shuffle(keys)
        for key in keys[:rng.randint(1, 4)]:
            if key == "year":
                fields.append([key, str(rng.randint(1900, 2030))])
            elif key == "title":
                fields.append([key, rng.choice(["A Title and More", "On {and}", "Xx yy"])])
            else:
                n = rng.randint(1, 5)
                v = " and ".join(rng.choice(good) if rng.random() < 0.97 else rng.choice(["xx~and B C", "AND Y X"]) for _ in range(n))
                fields.append([key, v])
        cases.append({"stream": "stack", "input": {"level": "stack", "fields": fields}})
    return cases


def shrink(case):
    inp = case["input"]
    if inp["level"] in ("person", "list"):
        s = inp["s"]
        for i in range(len(s)):
            yield {"stream": case.get("stream", "?"), "input": {"level": inp["level"], "s": s[:i] + s[i + 1:]}}
    else:
        fs = inp["fields"]
        for i in range(len(fs)):
            yield {"stream": "stack", "input": {"level": "stack", "fields": fs[:i] + fs[i + 1:]}}
        for i, (k, v) in enumerate(fs):
            ns = v.split(" and ")
            for j in range(len(ns)):
                if len(ns) > 1:
                    yield {"stream": "stack", "input": {"level": "stack", "fields": fs[:i] + [[k, " and ".join(ns[:j] + ns[j + 1:])]] + fs[i + 1:]}}


def admissible(d):
    return bool(d["last"]) and not any(nc.ends_odd_backslash(w) for w in nc.all_words(d))


def impl(case):
    import enc
    import implutil
    from props.c13 import enc_parts_dict, REASONS
    from bibtexparser.middlewares.names import (InvalidNameError, NameParts, parse_single_name_into_parts as pn,
                                                split_multiple_persons_names as sp)
    inp = case["input"]

    def parse(s):
        """('ok', dict) | ('inv', code); other exceptions propagate"""
        try:
            return ("ok", nc.parts_dict(pn(s)))
        except InvalidNameError as e:
            msg = str(e)
            return ("inv", next((v for k, v in REASONS.items() if msg.endswith(": " + k)), 0))

    def enc_res(r):
        return [0, enc_parts_dict(enc, r[1])] if r[0] == "ok" else [1, r[1]]

    def merge(d):
        return NameParts(first=d["first"], von=d["von"], last=d["last"], jr=d["jr"]).merge_last_name_first

    if inp["level"] == "person":
        s = inp["s"]
        rec = {"sx_in": [86, enc.enc_str(s)], "key": "p" + json.dumps(s), "tags": []}

        def run():
            r = parse(s)
            if r[0] != "ok":
                return [r]
            m = merge(r[1])
            return [r, m, parse(m)]
        g = implutil.guarded(run)
        if g[0] == "exc":
            rec["sx_out"] = implutil.r_exc(g[1])
            rec["oracle"] = {"ok": False, "detail": "%s raised on %r" % (g[2], s)}
            rec["nontrivial"] = True
            rec["summary"] = "raised " + g[2]
            return rec
        out = g[1]
        if len(out) == 1:
            rec["sx_out"] = implutil.r_ok([enc_res(out[0])])
            rec["oracle"] = {"ok": True, "detail": "invalid name: law not applicable"}
            rec["nontrivial"] = False
            rec["tags"].append("person_invalid")
            rec["summary"] = "invalid"
            return rec
        r, m, r2 = out
        rec["sx_out"] = implutil.r_ok([enc_res(r), enc.enc_str(m), enc_res(r2)])
        adm = admissible(r[1])
        ok, detail = True, ""
        if adm and r2 != r:
            ok, detail = False, "person inverse: %r -> %r -> merged %r -> %r" % (s, r[1], m, r2)
        rec["oracle"] = {"ok": ok, "detail": detail}
        rec["nontrivial"] = adm and len(nc.all_words(r[1])) >= 2
        rec["tags"].append("person_admissible" if adm else "person_outside_premises")
        rec["summary"] = repr((m, r2))[:200]
        return rec

    if inp["level"] == "list":
        v = inp["s"]
        rec = {"sx_in": [87, enc.enc_str(v)], "key": "l" + json.dumps(v), "tags": []}

        def run():
            names = sp(v)
            ps = [parse(n) for n in names]
            if any(p[0] != "ok" for p in ps):
                return [names, ps]
            v2 = " and ".join(merge(p[1]) for p in ps)
            names2 = sp(v2)
            return [names, ps, v2, names2, [parse(n) for n in names2]]
        g = implutil.guarded(run)
        if g[0] == "exc":
            rec["sx_out"] = implutil.r_exc(g[1])
            rec["oracle"] = {"ok": False, "detail": "%s raised on %r" % (g[2], v)}
            rec["nontrivial"] = True
            rec["summary"] = "raised " + g[2]
            return rec
        out = g[1]
        es = lambda l: [enc.enc_str(x) for x in l]
        if len(out) == 2:
            rec["sx_out"] = implutil.r_ok([es(out[0]), [enc_res(p) for p in out[1]]])
            rec["oracle"] = {"ok": True, "detail": "some name invalid: law not applicable"}
            rec["nontrivial"] = False
            rec["tags"].append("list_invalid")
            rec["summary"] = "invalid"
            return rec
        names, ps, v2, names2, ps2 = out
        rec["sx_out"] = implutil.r_ok([es(names), [enc_res(p) for p in ps], enc.enc_str(v2), es(names2), [enc_res(p) for p in ps2]])
        dicts = [p[1] for p in ps]
        adm = all(admissible(d) for d in dicts)
        k3 = nc.in_k3(dicts)
        ok, detail = True, ""
        if adm and ps2 != ps:
            ok, detail = False, "list inverse: %r -> %d persons -> merged %r -> %d persons %r" % (v, len(ps), v2, len(ps2), names2)
        orc = {"ok": ok, "detail": detail}
        if not ok and k3:
            orc["known"] = "K3"
        rec["oracle"] = orc
        rec["nontrivial"] = adm and any(len(nc.all_words(d)) >= 2 for d in dicts)
        rec["tags"].append("list_admissible" if adm else "list_outside_premises")
        if k3:
            rec["tags"].append("list_in_K3_class")
        rec["tags"].append("persons=%d" % len(ps))
        rec["summary"] = repr((v2, names2))[:200]
        return rec

    # ---- whole stack
    import bibtexparser
    from bibtexparser.middlewares.names import SeparateCoAuthors, SplitNameParts, MergeNameParts, MergeCoAuthors
    fields = inp["fields"]
    text = "@article{key1,\n" + ",\n".join("  %s = {%s}" % (k, v) if k != "year" else "  %s = %s" % (k, v) for k, v in fields) + "\n}\n"
    NF = ("author", "editor", "translator")
    rec = {"key": "s" + json.dumps(fields), "tags": ["stack"], "nontrivial": True}
    abstract = ()

    def run():
        plain = bibtexparser.parse_string(text)
        lib1 = bibtexparser.parse_string(text, append_middleware=[SeparateCoAuthors(), SplitNameParts()])
        snap1 = enc.enc_block(lib1.blocks[0], abstract)
        names1 = None
        if type(lib1.blocks[0]).__name__ == "Entry":
            names1 = [(f.key, [nc.parts_dict(p) for p in f.value]) for f in lib1.blocks[0].fields if f.key in NF]
        text2 = bibtexparser.write_string(lib1, prepend_middleware=[MergeNameParts(), MergeCoAuthors()])
        plain2 = bibtexparser.parse_string(text2)
        lib2 = bibtexparser.parse_string(text2, append_middleware=[SeparateCoAuthors(), SplitNameParts()])
        return plain, snap1, names1, text2, plain2, lib2
    g = implutil.guarded(run)
    if g[0] == "exc":
        rec["sx_in"] = None
        rec["oracle"] = {"ok": False, "detail": "%s raised through the stack on %r" % (g[2], text)}
        rec["summary"] = "raised " + g[2]
        return rec
    plain, snap1, names1, text2, plain2, lib2 = g[1]
    if len(plain.blocks) != 1 or type(plain.blocks[0]).__name__ != "Entry":
        rec["sx_in"] = None
        rec["oracle"] = {"ok": False, "detail": "harness: generated text did not parse as one entry: %r" % text}
        rec["summary"] = "not an entry"
        return rec
    rec["sx_in"] = [91, enc.enc_block(plain.blocks[0], abstract)]
    if names1 is None:
        rec["sx_out"] = implutil.r_ok([snap1, []])
        rec["oracle"] = {"ok": True, "detail": "an invalid name: error block, law not applicable"}
        rec["tags"].append("stack_invalid")
        rec["summary"] = "error block"
        return rec
    vals2 = [enc.enc_value(f.value) for f in plain2.blocks[0].fields] if len(plain2.blocks) == 1 and \
        type(plain2.blocks[0]).__name__ == "Entry" else [[-9]]
    rec["sx_out"] = implutil.r_ok([snap1, [vals2]])
    ok, detail = True, ""
    dicts = [d for _, ds in names1 for d in ds]
    adm = all(admissible(d) for d in dicts)
    names2 = None
    if len(lib2.blocks) == 1 and type(lib2.blocks[0]).__name__ == "Entry":
        try:
            names2 = [(f.key, [nc.parts_dict(p) for p in f.value]) for f in lib2.blocks[0].fields if f.key in NF]
        except Exception:  # noqa: BLE001
            names2 = None
    if adm and names2 != names1:
        ok, detail = False, "stack inverse: %r -> %r -> written %r -> %r" % (text, names1, text2, names2)
    orc = {"ok": ok, "detail": detail}
    if not ok and nc.in_k3(dicts):
        orc["known"] = "K3"
    rec["oracle"] = orc
    rec["tags"].append("stack_admissible" if adm else "stack_outside_premises")
    rec["summary"] = repr(text2)[:200]
    return rec
