"""C02 - well-formed BibTeX yields exactly the blocks, keys, fields and values written."""
import gens_split as G
import splitcommon as SC

ENGINE = "split"
RULE = ("stream G: seeded random derivations of the dialect grammar of DESIGN.md section 3 (whitespace kinds incl. CRLF, brace nesting "
        "0-4, quoted / braced / bare pieces, '#' concatenations, escaped delimiters, trailing commas, @a{k} forms) with constructive "
        "ground truth; three-way comparison implementation = model = ground truth, and the same derivations sent as ASTs of the Coq grammar (Model/Grammar.v): Coq's render = generator text, Coq's expected = implementation's blocks, wf_doc_b = true. distinct = distinct document text; non-trivial = "
        "at least two blocks or an entry with at least two fields. "
        "stream Q (oracle only): SEQUENCES of parses in one process - each step parses a document (grammar derivation or a small "
        "document of boundary forms: @t{k}, @t{k,}, @t{ k }, empty values, reserved / case-variant field names) with "
        "Splitter(text).split(), split(Library()), parse_string(text, parse_stack=[] / ()) or parse_string(..., library=Library()), "
        "must yield exactly its ground truth, and then the caller edits results handed out so far through the public API (entry[k] = v, "
        "set_field, fields.append / insert / clear / reverse, pop, del, Field.key / .value, block key / type / value / comment setters, "
        "parser metadata, Library.remove / add, blocks.clear) before the next parse - of another document or of the same text again; "
        "after every parse and every batch of edits the blocks the caller did not touch, of this and of every earlier result, must still "
        "equal their ground truth (what a caller does with one result, or with one block, never shows up in another). "
        "stream S: SIZE-scaled derivations of the same grammar with constructive ground truth, one dimension of the document at a "
        "time taken to n = 64..999, 1000..5000 (quick) and up to 20000 (thorough): brace nesting depth n inside a field value, inside "
        "a quoted piece, inside a @string value, a @preamble and a @comment body (bare, with text or a line break on every level); "
        "n '#'-joined pieces; n sibling brace groups; n fields in one entry; n blocks of mixed kinds; values of n lines / n digits; "
        "whitespace runs of length n at every place the grammar allows ws or hws; key, type, field and string names of n characters; "
        "n escaped delimiters; n quote characters inside braces; free text of n lines - each followed by further fields and blocks "
        "(the scanner must be in step again, start lines must count every line), parsed directly and from a caller that is already "
        "300 or 600 frames deep (interpreter recursion limit 1000); implementation = model (op 132) = ground truth. "
        "stream K / K-ast (props/c02_keychars.py): the character classes of props/charclasses.py in keys and names, with constructive "
        "ground truth and the derivation as an AST of the Coq grammar (three-way comparison and op 133 exactly as stream G / G-ast): "
        "for EVERY character of INVISIBLE_NOT_SPACE (not whitespace: part of the key), CASE_ODDITIES, LETTER_LIKE, COMBINING, "
        "DIGIT_ODDITIES and KEY_PUNCT and every position (start, end, middle, the whole word) a document whose entry keys (entry with "
        "fields and @t{k}), field names, bare macro piece, @string name and - for word characters - entry type carry it; entry types "
        "whose str.lower() is not the ASCII one in documents of their own (oracle only, skipped by the model comparison as all such "
        "documents are); sibling keys / field names / @string names that differ only by such a character, by its case mappings or "
        "by its Unicode normal forms in ONE document (distinct keys: no duplicate, no failed block); every whitespace character "
        "(ASCII blanks and OTHER_ISSPACE) in every ws slot around keys, names, '=', values, '#' and between blocks, also next to "
        "keys with an invisible character at the edge; random mixtures of all of these")
TRUSTED = ["the ground truth is produced by the generator (harness/gens_split.py) from the derivation, not by parsing"]
ASSUMPTIONS = ["documents outside the dialect (boundaries B1-B5 of DESIGN.md section 3) are not claimed by this property"]


def generate(rng, tier):
    cases = []
    n = 1500 if tier == "quick" else 40000
    for i in range(n):
        depth = rng.randint(0, 4)
        text, items, ast = G.gen_doc(rng, max_items=rng.choice([1, 3, 8, 12]), depth=depth, with_ast=True)
        if not SC.doc_is_nodup(items):
            continue
        cases.append({"stream": "G", "input": {"text": text, "items": items}})
        # the same derivation as an AST of the Coq grammar: Coq's render / expected / wf_doc_b against the
        # generator's text and the implementation's blocks
        cases.append({"stream": "G-ast", "input": {"text": text, "items": items, "ast": ast}})
    seqs = [gen_sequence(rng) for _ in range(500 if tier == "quick" else 12000)]
    # shortest first: the first failing sequence reported is then a small one
    seqs.sort(key=lambda q: (len(q["steps"]), sum(len(d["text"]) for d in q["docs"])))
    for q in seqs:
        cases.append({"stream": "Q", "input": q})
    for name, stack, text, items in gen_scaled(rng, tier):
        cases.append({"stream": "S", "input": {"text": text, "items": items, "name": name, "stack": stack}})
    # stream K (appended last: the streams above keep their inputs): character classes in keys and names
    from props import c02_keychars as KC
    for fam, tags, text, items, ast in KC.generate(rng, tier):
        if not SC.doc_is_nodup(items):
            continue
        cases.append({"stream": "K", "input": {"text": text, "items": items, "tags": tags}})
        cases.append({"stream": "K-ast", "input": {"text": text, "items": items, "ast": ast, "tags": ["ast:" + t for t in tags[:1]]}})
    return cases


def impl(case):
    if "steps" in case["input"]:
        return impl_sequence(case)
    text, items = case["input"]["text"], case["input"]["items"]
    if "ast" in case["input"]:
        import enc, implutil
        r = SC.split_impl(text)
        if r[0] == "exc":
            return {"sx_in": [133, case["input"]["ast"]], "sx_out": implutil.r_exc(6), "oracle": {"ok": False, "detail": "parse raised"},
                    "nontrivial": True}
        # split_raw level: a duplicate-free document has no duplicate wrappers, so library blocks = raw blocks
        out = [enc.enc_str(text), [enc.enc_block(b) for b in r[1].blocks], 1]
        rec = {"sx_in": [133, case["input"]["ast"]], "sx_out": implutil.r_ok(out), "key": "ast:" + (text if len(text) < 300 else str(hash(text))),
               "nontrivial": len(items) >= 2, "tags": ["ast"] + list(case["input"].get("tags", [])), "summary": SC.summary(r)}
        if not SC.lower_ok(text):
            rec["skip"] = True
        return rec
    name = case["input"].get("name")
    if name is None:
        rec, r = SC.base_record(text)
    else:
        rec, r = scaled_record(text, case["input"].get("stack", 0))
    if r[0] == "exc":
        rec["oracle"] = {"ok": False, "detail": "parse raised " + r[2] + (" (size-scaled document %s, parse_string called %d frames deep)"
                                                                          % (name, case["input"].get("stack", 0)) if name else "")}
        rec["nontrivial"] = True
        return rec
    lib = r[1]
    ok, detail = SC.expected_matches(lib, items)
    if ok and lib.failed_blocks:
        ok, detail = False, "failed block in a well-formed duplicate-free document"
    if ok:
        # Splitter(text).split() and parse_string(text, parse_stack=[]) are the same thing
        import bibtexparser
        import implutil
        r2 = implutil.guarded(lambda: bibtexparser.splitter.Splitter(text).split())
        if r2[0] == "exc":
            ok, detail = False, "Splitter(text).split() raised " + r2[2]
        elif SC.content(r2[1]) != SC.content(lib):
            ok, detail = False, "Splitter.split() differs from parse_string with an empty stack"
    rec["oracle"] = {"ok": ok, "detail": detail}
    rec["nontrivial"] = len(items) >= 2 or any(it["kind"] == "entry" and len(it["fields"]) >= 2 for it in items)
    rec["key"] = text if len(text) < 300 else str(hash(text))
    rec["tags"] = sorted(set(it["kind"] for it in items)) or ["empty"]
    if name:
        rec["tags"] = ["scaled:" + name.split("/")[0]]
        rec["nontrivial"] = True
    if case["input"].get("tags"):
        rec["tags"] = list(case["input"]["tags"])          # stream K: family, pool and position of the document
    return rec


def shrink(case):
    return []


# ====================================================================== stream Q: sequences of parses with caller edits between
# A document of the dialect parses to what is written in it - whatever the same process parsed before and whatever the caller
# did with the results of those parses.  One case = several documents, a list of steps (parse document d with entry point p, then
# apply edits to results handed out so far).  Everything is checked against the constructive ground truth of the documents.
PARSERS = ["split", "split_none", "split_lib", "ps_list", "ps_tuple", "ps_lib"]
B_KEYS = ["reftexStyle", "k1", "K1", "k2", "a:b", "0", "x.y-z", "Knuth84", "knuth84", "_", "key/1", "anotherBare", "ID"]
B_NAMES = ["title", "year", "note", "author", "a", "ID", "ENTRYTYPE", "Title", "owner", "x_1", "0"]
B_VALUES = ["{}", '""', "0", "{0}", "{x}", '"x y"', "{a, b = c}", "{{N}ested {T}itle}", "jan", "k1 # {x}", "{ }", '{"}', '{a "b" c}',
            "{@ misc}", '"{x} y"', "1990", '"a" # b # {c}', "{seen on shelf}"]
E_NAMES = ["note", "owner", "title", "year", "ID", "ENTRYTYPE", "Title", "a", "", "0"]
E_VALUES = ["{seen on shelf}", "{me}", "", " ", "0", 0, False, None, "{x}", ["a", "b"], 1990, "@misc{k}"]


def gen_boundary_doc(rng):
    """A small document made of the boundary forms of every block kind (constructive ground truth as in gens_split.gen_doc)."""
    parts, items = [], []
    keys = list(B_KEYS)
    rng.shuffle(keys)
    skeys = ["s1", "S1", "jan", "k1"]
    rng.shuffle(skeys)
    last_free = True     # no free text first: keeps the start line of the first block trivial to state
    text = rng.choice(["", "", "\n", " ", "\n\n"])
    for _ in range(rng.randint(1, 5)):
        kind = rng.choice(["entry", "entry", "entry", "bare", "bare", "bare", "string", "preamble", "comment", "freetext"])
        if kind == "freetext" and last_free:
            kind = "bare"
        if kind in ("entry", "bare") and not keys:
            kind = "comment"
        if kind == "string" and not skeys:
            kind = "comment"
        line0 = text.count("\n")
        if kind == "bare":
            typ, key = rng.choice(G.TYPES), keys.pop()
            form = rng.choice(["@%s{%s}", "@%s{%s}", "@%s{%s}", "@%s{ %s }", "@%s{%s,}", "@%s{%s, }", "@%s{%s,\n}", "@%s {%s}", "@%s{\n%s\n}"])
            raw = form % (typ, key)
            items.append({"kind": "entry", "raw": raw, "line": line0, "type": typ.lower(), "key": key, "fields": []})
        elif kind == "entry":
            typ, key = rng.choice(G.TYPES), keys.pop()
            names = rng.sample(B_NAMES, rng.randint(1, 3))
            multi = rng.random() < 0.5
            buf = "@%s{%s," % (typ, key)
            fields = []
            for j, nm in enumerate(names):
                val = rng.choice(B_VALUES)
                buf += "\n  " if multi else " "
                fields.append([nm, val, line0 + buf.count("\n")])
                buf += nm + rng.choice([" = ", "=", " =", "= "]) + val
                if j < len(names) - 1 or rng.random() < 0.4:
                    buf += ","
            raw = buf + ("\n}" if multi else rng.choice(["}", " }"]))
            items.append({"kind": "entry", "raw": raw, "line": line0, "type": typ.lower(), "key": key, "fields": fields})
        elif kind == "string":
            name, val = skeys.pop(), rng.choice(B_VALUES)
            raw = "@%s{%s = %s}" % (rng.choice(["string", "String", "STRING"]), name, val)
            items.append({"kind": "string", "raw": raw, "line": line0, "key": name, "value": val})
        elif kind == "preamble":
            body = rng.choice(["", '"x"', "{a} # b", '"\\newcommand{\\x}{y}"', "0"])
            raw = "@%s{%s}" % (rng.choice(["preamble", "Preamble"]), body)
            items.append({"kind": "preamble", "raw": raw, "line": line0, "value": body})
        elif kind == "comment":
            body = rng.choice(["", "x", "a {b} c", "0", "@ misc", "k = {v},", 'a "b'])
            raw = "@%s{%s}" % (rng.choice(["comment", "Comment"]), body)
            items.append({"kind": "comment", "raw": raw, "line": line0, "comment": body})
        else:
            raw = rng.choice(["% a remark", "x", "0", "some free text, with = marks", "}"])
            items.append({"kind": "freetext", "raw": raw, "line": line0, "comment": raw})
        last_free = kind == "freetext"
        text += raw + rng.choice(["\n", "\n", "\n\n", " ", "\n ", "\r\n", "\t"])
    return text, items


def gen_edits(rng, target, items):
    """Things an ordinary caller does with a parse result (JSON description; applied by apply_edit)."""
    eds = []
    ents = [i for i, it in enumerate(items) if it["kind"] == "entry"]
    r = rng.random()
    if r < 0.3 and ents:
        # the everyday one: annotate every entry of the result
        for _ in range(rng.randint(1, 2)):
            eds.append([target, rng.choice(["annotate", "annotate", "annotate_set_field", "annotate_append"]), None,
                        rng.choice(E_NAMES), rng.choice(E_VALUES)])
        return eds
    for _ in range(rng.randint(0, 4) if items else rng.randint(0, 1)):
        if not items or rng.random() < 0.1:
            eds.append([target, rng.choice(["blocks_clear", "blocks_pop", "blocks_reverse"]), None] if rng.random() < 0.6 else
                       [target, "add", None, rng.choice(G.TYPES), rng.choice(B_KEYS), [[rng.choice(E_NAMES), rng.choice(E_VALUES)]]])
            continue
        i = rng.randrange(len(items))
        it = items[i]
        if rng.random() < 0.12:
            eds.append([target, rng.choice(["meta", "meta_dict", "remove"]), i, rng.choice(["k", "removed_enclosing", ""]), rng.choice(E_VALUES)])
        elif it["kind"] == "entry":
            op = rng.choice(["setitem", "setitem", "set_field", "append", "insert", "extend", "pop", "del", "clear", "reverse",
                             "fval", "fkey", "key", "type", "fields_assign"])
            nm, val = rng.choice(E_NAMES), rng.choice(E_VALUES)
            if op in ("pop", "del") and it["fields"] and rng.random() < 0.7:
                nm = rng.choice(it["fields"])[0]
            if op in ("fval", "fkey"):
                eds.append([target, op, i, rng.randint(0, max(0, len(it["fields"]) - 1)), val if op == "fval" else nm])
            elif op in ("extend", "fields_assign"):
                eds.append([target, op, i, [[rng.choice(E_NAMES), rng.choice(E_VALUES)] for _ in range(rng.randint(0, 2))]])
            elif op in ("key", "type"):
                eds.append([target, op, i, rng.choice(B_KEYS + G.TYPES + ["", None])])
            elif op in ("clear", "reverse"):
                eds.append([target, op, i])
            elif op in ("pop", "del"):
                eds.append([target, op, i, nm])
            else:
                eds.append([target, op, i, nm, val])
        elif it["kind"] == "string":
            eds.append([target, rng.choice(["key", "value"]), i, rng.choice(E_VALUES)])
        elif it["kind"] == "preamble":
            eds.append([target, "value", i, rng.choice(E_VALUES)])
        else:
            eds.append([target, "comment", i, rng.choice(E_VALUES)])
    return eds


def gen_sequence(rng):
    docs = []
    for _ in range(rng.randint(1, 3)):
        for _try in range(20):
            if rng.random() < 0.5:
                text, items = gen_boundary_doc(rng)
            else:
                text, items = G.gen_doc(rng, max_items=rng.choice([1, 3, 6]), depth=rng.randint(0, 2),
                                        kinds=rng.choice([None, ["entry"], ["entry", "entry", "entry", "string", "comment", "freetext"]]),
                                        field_names=rng.choice([None, B_NAMES]))
            if SC.doc_is_nodup(items):
                break
        else:
            text, items = "", []
        docs.append({"text": text, "items": items})
    steps = []
    for k in range(rng.randint(2, 5)):
        # a new document, or one parsed before (the same text again)
        d = rng.randrange(len(docs)) if k >= len(docs) or rng.random() < 0.3 else k
        eds = []
        for _ in range(rng.choice([1, 1, 1, 2, 0])):
            target = k if rng.random() < 0.75 else rng.randint(0, k)      # mostly the fresh result, sometimes an older one
            eds.extend(gen_edits(rng, target, docs[d]["items"] if target == k else docs[steps[target]["doc"]]["items"]))
        steps.append({"doc": d, "parser": rng.choice(PARSERS), "edits": eds})
    return {"docs": docs, "steps": steps}


def parse_with(parser, text):
    import bibtexparser
    from bibtexparser.library import Library
    from bibtexparser.splitter import Splitter
    if parser == "split":
        return Splitter(text).split()
    if parser == "split_none":
        return Splitter(text).split(library=None)
    if parser == "split_lib":
        return Splitter(text).split(Library())
    if parser == "ps_list":
        return bibtexparser.parse_string(text, parse_stack=[])
    if parser == "ps_tuple":
        return bibtexparser.parse_string(text, parse_stack=())
    return bibtexparser.parse_string(text, parse_stack=[], library=Library())


def apply_edit(lib, blocks, ed):
    """Apply one caller edit to a result (lib, blocks as handed out); returns the indices of the blocks the caller touched.
    What the edit call itself does (it may well raise for odd arguments) is not the subject of this property."""
    from bibtexparser.model import Entry, Field
    op, i = ed[1], ed[2]
    ents = [j for j, b in enumerate(blocks) if isinstance(b, Entry)]
    touched = set(ents) if op.startswith("annotate") else ({i} if i is not None else set())
    try:
        b = blocks[i] if i is not None else None
        if op == "annotate":
            for e in lib.entries:
                e[ed[3]] = ed[4]
        elif op == "annotate_set_field":
            for e in lib.entries:
                e.set_field(Field(ed[3], ed[4]))
        elif op == "annotate_append":
            for e in lib.entries:
                e.fields.append(Field(ed[3], ed[4]))
        elif op == "blocks_clear":
            lib.blocks.clear()
        elif op == "blocks_pop":
            lib.blocks.pop()
        elif op == "blocks_reverse":
            lib.blocks.reverse()
        elif op == "add":
            lib.add(Entry(ed[3], ed[4], [Field(k, v) for k, v in ed[5]]))
        elif op == "meta":
            b.set_parser_metadata(ed[3], ed[4])
        elif op == "meta_dict":
            b.parser_metadata[ed[3]] = ed[4]
        elif op == "remove":
            lib.remove(b)
        elif op == "setitem":
            b[ed[3]] = ed[4]
        elif op == "set_field":
            b.set_field(Field(ed[3], ed[4]))
        elif op == "append":
            b.fields.append(Field(ed[3], ed[4]))
        elif op == "insert":
            b.fields.insert(0, Field(ed[3], ed[4]))
        elif op == "extend":
            b.fields.extend(Field(k, v) for k, v in ed[3])
        elif op == "fields_assign":
            b.fields = [Field(k, v) for k, v in ed[3]]
        elif op == "pop":
            b.pop(ed[3])
        elif op == "del":
            del b[ed[3]]
        elif op == "clear":
            b.fields.clear()
        elif op == "reverse":
            b.fields.reverse()
        elif op == "fval":
            b.fields[ed[3]].value = ed[4]
        elif op == "fkey":
            b.fields[ed[3]].key = ed[4]
        elif op == "key":
            b.key = ed[3]
        elif op == "type":
            b.entry_type = ed[3]
        elif op == "value":
            b.value = ed[3]
        elif op == "comment":
            b.comment = ed[3]
    except Exception:  # noqa: BLE001
        pass
    return touched


class _Blocks:
    def __init__(self, blocks):
        self.blocks = blocks


def impl_sequence(case):
    import hashlib
    import json
    import implutil
    inp = case["input"]
    docs, steps = inp["docs"], inp["steps"]
    rec = {"sx_in": None, "sx_out": None, "key": "seq:" + hashlib.sha1(json.dumps(inp, sort_keys=True).encode()).hexdigest()[:16], "tags": ["sequence"],
           "nontrivial": len(steps) >= 2 and any(s["edits"] for s in steps[:-1])}
    results = []          # per step: (lib, blocks as handed out, items, touched indices)

    def untouched_intact(when):
        for n, (_, blocks, items, touched) in enumerate(results):
            keep = [j for j in range(len(items)) if j not in touched]
            ok, detail = SC.expected_matches(_Blocks([blocks[j] for j in keep]), [items[j] for j in keep])
            if not ok:
                return False, "%s: the result of step %d (document %r), in blocks the caller never touched (positions %r), no longer " \
                              "has what is written in its source: %s" % (when, n, docs[steps[n]["doc"]]["text"][:200], keep, detail)
        return True, ""

    summ = []
    for n, st in enumerate(steps):
        doc = docs[st["doc"]]
        text, items = doc["text"], doc["items"]
        r = implutil.guarded(lambda: parse_with(st["parser"], text))
        if r[0] == "exc":
            rec["oracle"] = {"ok": False, "detail": "step %d: %s of %r raised %s" % (n, st["parser"], text[:200], r[2])}
            rec["summary"] = "raised " + r[2]
            return rec
        lib = r[1]
        summ.append("%d:%s" % (n, ",".join(t[:1] for t in SC.block_kinds(lib))))
        history = "; ".join("step %d parsed document %d with %s, then the caller did %s" % (m, s["doc"], s["parser"], json.dumps(s["edits"]))
                            for m, s in enumerate(steps[:n])) or "nothing"
        ok, detail = SC.expected_matches(lib, items)
        if ok and lib.failed_blocks:
            ok, detail = False, "failed block in a well-formed duplicate-free document"
        if not ok:
            rec["oracle"] = {"ok": False, "detail": "step %d: %s of %r does not yield what is written: %s  [before it: %s]"
                                                    % (n, st["parser"], text[:300], detail, history[:1500])}
            rec["summary"] = " ".join(summ)
            return rec
        results.append((lib, list(lib.blocks), items, set()))
        ok, detail = untouched_intact("after the parse of step %d" % n)
        for ed in st["edits"] if ok else []:
            tl, tb, _, tt = results[ed[0]]
            tt |= apply_edit(tl, tb, ed)
            ok, detail = untouched_intact("after edit %s in step %d" % (json.dumps(ed), n))
            if not ok:
                break
        if not ok:
            rec["oracle"] = {"ok": False, "detail": detail + "  [before it: %s]" % history[:1500]}
            rec["summary"] = " ".join(summ)
            return rec
    rec["oracle"] = {"ok": True, "detail": ""}
    rec["summary"] = " ".join(summ)
    return rec


# ====================================================================== stream S: size-scaled documents of the dialect
# The grammar puts no bound on nesting depth, on the number of pieces, fields, blocks or lines, or on the length of a name or of
# a whitespace run.  Each family takes ONE of these dimensions to n and keeps the rest of the document ordinary, with fields and
# blocks after the large part (so a scanner that lost step, or a line counter that lost a line, shows).  Ground truth is
# constructed with the text, exactly as in gens_split.gen_doc.
S_SMALL = [64, 127, 200, 255, 256, 257, 300, 400, 511, 513, 640, 777, 900, 999]
S_BIG = [1000, 1001, 1023, 1025, 1500, 2049, 3001, 5000]
S_HUGE = [10001, 20000]
S_GAPS = ["\n", "\n", "\n\n", " ", "\r\n", "\n \n", "\t", "\x0c\n"]
S_TYPES = ["article", "Article", "BOOK", "misc", "inProceedings", "x_1"]


class _Doc:
    """Text and ground truth of a document, built side by side."""

    def __init__(self, rng, lead=""):
        self.rng, self.parts, self.nl, self.items = rng, [], 0, []
        self.free_last = False
        self.add(lead)

    def add(self, s):
        self.parts.append(s)
        self.nl += s.count("\n")

    def gap(self, g=None):
        self.add(self.rng.choice(S_GAPS) if g is None else g)

    def _item(self, start, line0, item):
        item["raw"], item["line"] = "".join(self.parts[start:]), line0
        self.items.append(item)
        self.free_last = item["kind"] == "freetext"

    def entry(self, typ, key, fields, hws="", w1="", w2="", bare=False, trailing=False, close_ws=""):
        """fields: (pre, name, mid1, mid2, value, post) - ws* name ws* '=' ws* value ws*"""
        start, line0 = len(self.parts), self.nl
        self.add("@" + typ + hws + "{" + w1 + key + w2)
        out = []
        if not (bare and not fields):
            self.add(",")
            for i, (pre, name, mid1, mid2, val, post) in enumerate(fields):
                self.add(pre + name + mid1)
                out.append([name, val, self.nl])
                self.add("=" + mid2 + val + post)
                if i < len(fields) - 1:
                    self.add(",")
            if not fields:
                self.add(close_ws)
            elif trailing:
                self.add("," + close_ws)
        self.add("}")
        self._item(start, line0, {"kind": "entry", "type": typ.lower(), "key": key, "fields": out})

    def string(self, name, val, kw="string", hws="", w1="", w2=" ", w3=" ", w4=""):
        start, line0 = len(self.parts), self.nl
        self.add("@" + kw + hws + "{" + w1 + name + w2 + "=" + w3 + val + w4 + "}")
        self._item(start, line0, {"kind": "string", "key": name, "value": val})

    def preamble(self, body, kw="preamble", hws=""):
        start, line0 = len(self.parts), self.nl
        self.add("@" + kw + hws + "{" + body + "}")
        self._item(start, line0, {"kind": "preamble", "value": body})

    def comment(self, body, kw="comment", hws=""):
        start, line0 = len(self.parts), self.nl
        self.add("@" + kw + hws + "{" + body + "}")
        self._item(start, line0, {"kind": "comment", "comment": body.strip()})

    def freetext(self, raw):
        start, line0 = len(self.parts), self.nl
        self.add(raw)
        self._item(start, line0, {"kind": "freetext", "comment": raw})

    def small(self, tag):
        """an ordinary block (before / after the large part)"""
        rng = self.rng
        k = rng.randrange(6 if not self.free_last else 5)
        if k == 0:
            self.entry(rng.choice(S_TYPES), "after" + tag, [(" ", "title", " ", " ", '"n {{m}} o" # jan', ""), ("\n  ", "year", "", "", "2020", "\n")])
        elif k == 1:
            self.entry(rng.choice(S_TYPES), "bare" + tag, [], bare=True)
        elif k == 2:
            self.string("s" + tag, rng.choice(['"x"', "{a {b} c}", "jan # {x}"]), kw=rng.choice(["string", "String"]))
        elif k == 3:
            self.preamble(rng.choice(['"\\newcommand{\\x}{y}"', "{a} # b", ""]))
        elif k == 4:
            self.comment(rng.choice(["after " + tag, "a {b} c", "k = {v},"]), kw=rng.choice(["comment", "Comment"]))
        else:
            self.freetext(rng.choice(["% a remark " + tag, "some free text, with = marks", "x"]))

    def done(self):
        return "".join(self.parts), self.items


def _nest(rng, n):
    """a brace group nested n deep (n >= 1), as one braced piece: `{`*n ... `}`*n with one of several fillings"""
    inner = rng.choice(["x", "x, y = z", "", 'a "b" c', "\\{", "deep text"])
    style = rng.randrange(5)
    if style == 0:
        return "{" * n + inner + "}" * n
    if style == 1:                         # text on every level, before and behind the nested group
        return "{a" * n + inner + "b}" * n
    if style == 2:                         # a line break on every level
        return "{\n" * n + inner + "\n}" * n
    if style == 3:                         # delimiters on every level
        return "{," * n + inner + "=}" * n
    return "{" * n + inner + "}" * (n - 1) + "{}" * 3 + "}"      # siblings at the outermost level after the deep one


def _around(rng, deep):
    """the deep / long value among ordinary fields, at a random position"""
    fs = [(" ", "year", " ", " ", "2020", ""), ("\n  ", "note", " ", " ", '"n {{m}} o" # jan', ""), ("\n ", "a", "", "", "{b, c = d}", " ")]
    rng.shuffle(fs)
    fs = fs[:rng.randint(0, 3)]
    fs.insert(rng.randint(0, len(fs)), (rng.choice([" ", "\n  "]), "title", rng.choice(["", " "]), rng.choice(["", " "]), deep, rng.choice(["", "\n"])))
    return fs


def _S_nest_field(rng, n, d):
    d.entry(rng.choice(S_TYPES), "key%d" % n, _around(rng, _nest(rng, n)), trailing=rng.random() < 0.5, close_ws="\n")


def _S_nest_in_concat(rng, n, d):
    deep = rng.choice(["jan # ", '"q" # ', "{x} # "]) + _nest(rng, n) + rng.choice(["", " # feb", ' # "r"', "#{y}"])
    d.entry(rng.choice(S_TYPES), "cat%d" % n, _around(rng, deep))


def _S_nest_quoted(rng, n, d):
    inner = rng.choice(["x", "x, y = z", "", "deep text"])
    deep = '"' + rng.choice(["", "a "]) + "{" * n + inner + "}" * n + rng.choice(["", " b"]) + '"'
    d.entry(rng.choice(S_TYPES), "q%d" % n, _around(rng, deep))


def _S_nest_string(rng, n, d):
    d.string("deep%d" % n, _nest(rng, n), kw=rng.choice(["string", "String", "STRING"]))


def _S_nest_preamble(rng, n, d):
    d.preamble(_nest(rng, n)[1:-1] if n > 1 else "x", kw=rng.choice(["preamble", "Preamble"]))


def _S_nest_comment(rng, n, d):
    d.comment(_nest(rng, n)[1:-1] if n > 1 else "x", kw=rng.choice(["comment", "Comment"]))


def _S_many_pieces(rng, n, d):
    ps = [rng.choice(["jan", "1990", "{x}", '"y"', "{a, b}", '"c = d"', "{}", '""', "k1"]) for _ in range(n)]
    sep = rng.choice(["#", " # ", " #\n ", "# "])
    d.entry(rng.choice(S_TYPES), "pieces%d" % n, _around(rng, sep.join(ps)))


def _S_many_groups(rng, n, d):
    g = rng.choice(["{x}", "{x} ", "{}", "{a}b", "{,}", "{\n}"])
    val = ("{" + g * n + "}") if rng.random() < 0.6 else ('"' + g.replace(",", ";") * n + '"')
    d.entry(rng.choice(S_TYPES), "groups%d" % n, _around(rng, val))


def _S_many_fields(rng, n, d):
    vals = ["{x}", '"y"', "2020", "jan # {z}", "{a, b = c}", '"{q}"', "{}"]
    pre = rng.choice([" ", "\n  ", "\n", ""])
    fs = [(pre, "f%d" % i, rng.choice(["", " "]), rng.choice(["", " "]), rng.choice(vals), "") for i in range(n)]
    d.entry(rng.choice(S_TYPES), "fields%d" % n, fs, trailing=rng.random() < 0.5, close_ws=rng.choice(["", "\n"]))


def _S_many_blocks(rng, n, d):
    kinds = rng.choice([["entry"], ["entry", "entry", "string", "preamble", "comment", "freetext"], ["bare"], ["comment", "freetext"],
                        ["string"], ["entry", "freetext"]])
    for i in range(n):
        k = rng.choice(kinds)
        if k == "freetext" and d.free_last:
            k = "comment"
        if k == "entry":
            d.entry(rng.choice(S_TYPES), "k%d" % i, [(" ", "a", " ", " ", rng.choice(["{b%d}" % i, '"c"', "%d" % i]), "")])
        elif k == "bare":
            d.entry(rng.choice(S_TYPES), "k%d" % i, [], bare=True)
        elif k == "string":
            d.string("s%d" % i, '"v%d"' % i)
        elif k == "preamble":
            d.preamble('"p%d"' % i)
        elif k == "comment":
            d.comment("c%d" % i)
        else:
            d.freetext("%% remark %d" % i)
        if i < n - 1:
            d.gap()


def _S_long_value(rng, n, d):
    r = rng.randrange(4)
    if r == 0:
        val = "{" + "a line, with = and \" in it\n" * n + "}"
    elif r == 1:
        val = '"' + "a line, with = in it\n" * n + '"'
    elif r == 2:
        val = rng.choice("123456789") + "".join(rng.choice("0123456789") for _ in range(n - 1))
    else:
        val = "{" + "word " * n + "}"
    d.entry(rng.choice(S_TYPES), "long%d" % n, _around(rng, val))


def _S_long_ws(rng, n, d):
    unit = rng.choice([" ", "\n", "\t", "\r\n", " \n", "\x0c", "\n\n\t"])
    ws = (unit * (n // len(unit) + 1))[:n] if unit != "\r\n" else unit * (n // 2)
    hws = rng.choice([" ", "\t", " \t"]) * n
    where = rng.randrange(9)
    W = lambda k: ws if where == k else rng.choice(["", " "])          # noqa: E731
    if where == 7:
        d.string("ws%d" % n, "{v}", hws=rng.choice(["", hws]), w1=ws, w2=ws, w3=ws, w4=ws)
    elif where == 8:
        d.gap(ws)
        d.small("w")
        d.gap(ws)
    else:
        d.entry(rng.choice(S_TYPES), "ws%d" % n,
                [(W(2), "title", W(3), W(4), "{x}", W(5)), (W(2), "year", W(3), W(4), "2020", W(5))],
                hws=hws if where == 0 else "", w1=W(1), w2=W(1), trailing=where == 6, close_ws=W(6))


def _S_long_names(rng, n, d):
    name = "".join(rng.choice(G.KEYCH) for _ in range(n))
    word = "".join(rng.choice("abcXYZ_019") for _ in range(n))
    r = rng.randrange(4)
    if r == 0:
        d.entry("article", name, [(" ", "title", " ", " ", "{x}", "")])
    elif r == 1:
        d.entry("x" + word, "k", [(" ", "title", " ", " ", "{x}", "")])
    elif r == 2:
        d.entry("misc", "k", [(" ", name, " ", " ", "{x}", ""), (" ", "year", "", "", "1990", "")])
    else:
        d.string(name, '"v"')


def _S_many_escapes(rng, n, d):
    r = rng.randrange(4)
    if r == 0:
        val = "{" + "".join(rng.choice(["a\\{", "b\\}", 'c\\"', "d\\,", "e\\="]) for _ in range(n)) + "}"
    elif r == 1:
        val = '"' + "".join(rng.choice(['a\\"', "b\\{", "c\\}", "d"]) for _ in range(n)) + '"'
    elif r == 2:
        val = "{" + "a\\{" * n + "z" + "\\}b" * n + "}"
    else:
        val = "{" + 'a\\"' * n + "}"
    d.entry(rng.choice(S_TYPES), "esc%d" % n, _around(rng, val))


def _S_many_quotes(rng, n, d):
    val = "{" + rng.choice(['a " b ', '"', '"x"', '", ']) * n + "}"
    d.entry(rng.choice(S_TYPES), "quotes%d" % n, _around(rng, val))


def _S_long_freetext(rng, n, d):
    if d.free_last:
        d.comment("sep")
        d.gap("\n")
    lines = [rng.choice(["%% line %d", "text %d, with = and } marks", "x%d", "", "{ %d"]) for _ in range(n)]
    d.freetext("% first\n" + "\n".join((s % i) if "%d" in s else s for i, s in enumerate(lines)) + "\nlast")


S_FAMILIES = [("nest_field", _S_nest_field), ("nest_in_concat", _S_nest_in_concat), ("nest_quoted", _S_nest_quoted),
              ("nest_string", _S_nest_string), ("nest_preamble", _S_nest_preamble), ("nest_comment", _S_nest_comment),
              ("many_pieces", _S_many_pieces), ("many_groups", _S_many_groups), ("many_fields", _S_many_fields),
              ("many_blocks", _S_many_blocks), ("long_value", _S_long_value), ("long_ws", _S_long_ws), ("long_names", _S_long_names),
              ("many_escapes", _S_many_escapes), ("many_quotes", _S_many_quotes), ("long_freetext", _S_long_freetext)]


S_HEAVY = ("many_fields", "many_blocks", "long_value", "long_freetext")      # text grows by tens of characters per unit of n


def gen_scaled_doc(rng, fam, n):
    d = _Doc(rng, lead=rng.choice(["", "", "\n", " \n"]))
    for j in range(rng.randint(0, 2)):
        d.small("b%d" % j)
        d.gap()
    fam(rng, n, d)
    for j in range(rng.randint(1, 2)):
        d.gap()
        d.small("a%d" % j)
    d.gap(rng.choice(["", "\n", " "]))
    return d.done()


def gen_scaled(rng, tier):
    """[(name, frames the caller is deep, text, items)], smaller sizes first"""
    out = []
    for fname, fam in S_FAMILIES:
        if tier == "quick" and fname in S_HEAVY:
            sizes = [rng.choice(S_SMALL[:7]), rng.choice(S_SMALL[7:]), rng.choice(S_BIG[:5])]
        elif tier == "quick":
            sizes = [rng.choice(S_SMALL[:7]), rng.choice(S_SMALL[7:]), rng.choice(S_BIG[:4]), rng.choice(S_BIG[4:])]
        else:
            sizes = S_SMALL + S_BIG + S_BIG + S_HUGE
        for n in sizes:
            text, items = gen_scaled_doc(rng, fam, n)
            if not SC.doc_is_nodup(items):
                continue
            stack = rng.choice([0, 300, 600]) if n < 1000 else rng.choice([0, 0, 300])
            out.append((n, "%s/%d" % (fname, n), stack, text, items))
    out.sort(key=lambda t: t[0])
    return [t[1:] for t in out]


def _at_depth(k, fn):
    """fn() called from k frames further down the stack (a caller that is itself deep in its own program)"""
    return _at_depth(k - 1, fn) if k > 0 else fn()


def scaled_record(text, stack):
    """as splitcommon.base_record (model comparison through op 132), the parse made from `stack` extra frames"""
    import bibtexparser
    import enc
    import implutil
    r = implutil.guarded(lambda: _at_depth(stack, lambda: bibtexparser.parse_string(text, parse_stack=[])))
    rec = {"sx_in": [132, enc.enc_str(text)], "sx_out": SC.enc_result(r), "summary": SC.summary(r)}
    if not SC.lower_ok(text):
        rec["skip"] = True
    return rec, r
