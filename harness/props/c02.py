"""C02 - well-formed BibTeX yields exactly the blocks, keys, fields and values written."""
import gens_split as G
import splitcommon as SC

ENGINE = "split"
RULE = ("stream G: seeded random derivations of the dialect grammar of DESIGN.md section 3 (whitespace kinds incl. CRLF, brace nesting "
        "0-4, quoted / braced / bare pieces, '#' concatenations, escaped delimiters, trailing commas, @a{k} forms) with constructive "
        "ground truth; three-way comparison implementation = model = ground truth, and the same derivations sent as ASTs of the Coq grammar (Model/Grammar.v): Coq's render = generator text, Coq's expected = implementation's blocks, wf_doc_b = true. distinct = distinct document text; non-trivial = "
        "at least two blocks or an entry with at least two fields")
TRUSTED = ["the ground truth is produced by the generator (harness/gens_split.py) from the derivation, not by parsing"]
ASSUMPTIONS = ["documents outside the dialect (boundaries B1-B5 of DESIGN.md section 3) are not claimed by this property"]


def generate(rng, tier):
    cases = []
    n = 1500 if tier == "quick" else 40000
    for i in range(n):
        depth = rng.randint(0, 4)
        text, items, ast = G.gen_doc(rng, max_items=rng.choice([1, 3, 8, 12]), depth=depth, with_ast=True)
        if not SC.doc_is_nodup(items):
            continue
        cases.append({"stream": "G", "input": {"text": text, "items": items}})
        # the same derivation as an AST of the Coq grammar: Coq's render / expected / wf_doc_b against the
        # generator's text and the implementation's blocks
        cases.append({"stream": "G-ast", "input": {"text": text, "items": items, "ast": ast}})
    return cases


def impl(case):
    text, items = case["input"]["text"], case["input"]["items"]
    if "ast" in case["input"]:
        import enc, implutil
        r = SC.split_impl(text)
        if r[0] == "exc":
            return {"sx_in": [133, case["input"]["ast"]], "sx_out": implutil.r_exc(6), "oracle": {"ok": False, "detail": "parse raised"},
                    "nontrivial": True}
        # split_raw level: a duplicate-free document has no duplicate wrappers, so library blocks = raw blocks
        out = [enc.enc_str(text), [enc.enc_block(b) for b in r[1].blocks], 1]
        rec = {"sx_in": [133, case["input"]["ast"]], "sx_out": implutil.r_ok(out), "key": "ast:" + (text if len(text) < 300 else str(hash(text))),
               "nontrivial": len(items) >= 2, "tags": ["ast"], "summary": SC.summary(r)}
        if not SC.lower_ok(text):
            rec["skip"] = True
        return rec
    rec, r = SC.base_record(text)
    if r[0] == "exc":
        rec["oracle"] = {"ok": False, "detail": "parse raised " + r[2]}
        rec["nontrivial"] = True
        return rec
    lib = r[1]
    ok, detail = SC.expected_matches(lib, items)
    if ok and lib.failed_blocks:
        ok, detail = False, "failed block in a well-formed duplicate-free document"
    if ok:
        # Splitter(text).split() and parse_string(text, parse_stack=[]) are the same thing
        import bibtexparser
        lib2 = bibtexparser.splitter.Splitter(text).split()
        if SC.content(lib2) != SC.content(lib):
            ok, detail = False, "Splitter.split() differs from parse_string with an empty stack"
    rec["oracle"] = {"ok": ok, "detail": detail}
    rec["nontrivial"] = len(items) >= 2 or any(it["kind"] == "entry" and len(it["fields"]) >= 2 for it in items)
    rec["key"] = text if len(text) < 300 else str(hash(text))
    rec["tags"] = sorted(set(it["kind"] for it in items)) or ["empty"]
    return rec


def shrink(case):
    return []
