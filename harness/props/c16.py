"""C16 - block sorting is a stable permutation by (type rank, key) keeping comment runs attached; input unchanged."""
import itertools
import json

ENGINE = "sortblocks"
RULE = ("libraries built from sequences over a 12-block universe (entries with keys b/a/B/empty, strings a/b, preamble, "
        "explicit and implicit comments, parsing-failed, duplicate-field and middleware-error blocks; repeated keys become "
        "DuplicateBlockKeyBlocks) x every sub-permutation of the five block classes (326) x both comment modes; all sequences "
        "up to length 2 (quick) / 3 (thorough) under several configurations, longer ones (<= 5 quick, <= 7 thorough) sampled "
        "for every (order, mode); orders naming failed-block classes or the abstract Block; sorting twice; libraries whose "
        "keys were edited after insertion; libraries built in code from blocks without line numbers that compare EQUAL "
        "without being identical (preambles, comments, failed blocks sharing one exception, entries/strings) or hold the very same "
        "object several times, with different comment runs above the equal blocks (all pairs of runs from a small set x "
        "equal/same object, plus sampled longer ones), judged by value against the unique stable arrangement; libraries whose "
        "start_line values are NOT in library order (every pair of blocks that can tie x every pair of line values from "
        "{None, 0, 1, 2} x comment runs, sampled longer ones with shuffled / equal / missing line numbers; libraries assembled by "
        "several parse_string calls into one Library, blocks moved by remove+add, code-built blocks added to parsed ones): "
        "ties must follow the position in the library; USER CLASSES (harness/props/userclasses.py): libraries mixing plain "
        "blocks with instances of trivial subclasses of the five block classes (a subclass of a comment class is a comment, a "
        "subclass of Entry/String has its key, the rank is that of the EXACT type) under orders that list, per class, the base, "
        "the subclass, both (either way round) or neither, given as a tuple or a list (empty ones included), through a plain or a "
        "subclassed Library (also built with blocks=None), with preserve_comments_on_top True / False / None (None is falsy: off); "
        "block_type_order=None is not an order: it may be refused, if it is accepted the result must still be a permutation "
        "keeping comment runs attached (oracle only wherever a subclass instance is held: the model has no such class); STATE "
        "(harness/props/c16_state.py): blocks of every class - comments, preambles, @strings, entries, failed / duplicate-key / "
        "duplicate-field / middleware-error blocks and the blocks they wrap - carrying everything equality sees: parser metadata "
        "(set_parser_metadata or the mapping; str, numbers, booleans, None, empty, list, tuple, NameParts, nested and shared values; "
        "what the default parse stack and field-sorting / month / name / LaTeX / key / enclosing middlewares and a user BlockMiddleware "
        "marking every block leave behind), start_line / raw / field lines None, 0, empty, large, values that are no str in fields, "
        "@strings, preambles, comments, Field and block subclasses, attributes put on the instance by the caller; every block kind x "
        "every kind of state one at a time, sampled mixtures, libraries parsed with the default or an empty stack plus extras; the "
        "result must read like the stable arrangement of a deep copy taken before the call, attribute by attribute, by instance state "
        "and by Block.__eq__, the input unchanged (oracle only with user classes / caller attributes / values without wire shape); NAMES "
        "(harness/props/c16_names.py): user classes that COINCIDE with library classes in name or shape - subclasses of the block "
        "classes (and of ParsingFailedBlock) with the same __name__ / __qualname__ as their base, with the name of ANOTHER library "
        "class (the five, the failed-block classes, Block) or a near miss of one, unrelated Block subclasses under such names, "
        "nested (Project.Entry), derived once more under the same name, with __module__ reading a user module, __main__ or "
        "bibtexparser.model - as instances among plain blocks of the base, of the name twin and of other classes (also wrapped as "
        "duplicate-key blocks, in and above comment runs), under orders that list the class itself / its base / the library class "
        "of its name in every combination and relative order or none, tuple or list, both comment modes, once or twice; and plain "
        "libraries under orders listing such classes (model-compared); rank, comment-ness and key are decided by type IDENTITY, "
        "the oracle compares classes with `is` only (oracle only where such an instance is held). distinct = "
        "distinct (sequence, order, mode, times); non-trivial = at least two blocks")
TRUSTED = ["CPython's list.sort is a stable sort (Base/StableSort.v proves the stable sorted permutation unique, so any such "
           "sort computes the model's insertion sort); tuple comparison (int, str) is lexicographic, str by code point",
           "copy.deepcopy returns a structurally equal copy (its contract is C07's subject)"]
ASSUMPTIONS = ["list.sort meets the stable-sort contract", "deepcopy yields structurally equal blocks"]

U_N = 12
COMMENTS = (6, 7)
FIVE = [0, 1, 2, 3, 4]            # Entry, String, Preamble, ExplicitComment, ImplicitComment (wire class codes)
CLASS_NAMES = ["Entry", "String", "Preamble", "ExplicitComment", "ImplicitComment", "ParsingFailedBlock",
               "MiddlewareErrorBlock", "DuplicateBlockKeyBlock", "DuplicateFieldKeyBlock", "Block"]
# codes 10..14: the trivial user subclasses of classes 0..4 (userclasses.py); the model knows them only as order items that match nothing
SUB_NAMES = ["SubEntry", "SubString", "SubPreamble", "SubExplicitComment", "SubImplicitComment"]
LIB_NAMES = CLASS_NAMES[:]
CLASS_NAMES = CLASS_NAMES + SUB_NAMES
DEFAULT_ORDER = [1, 2, 0, 4, 3]
U_CLASS = {0: 0, 1: 0, 2: 0, 11: 0, 3: 1, 4: 1, 5: 2, 6: 3, 7: 4}     # universe block -> class code, where as_sub applies
# "equal" streams: an item is [kind, content, share]; kinds: 0 Entry, 1 String, 2 Preamble, 3 ExplicitComment, 4 ImplicitComment,
# 5 ParsingFailedBlock (one exception object per content, so equal contents compare equal), 6 DuplicateFieldKeyBlock,
# 7 MiddlewareErrorBlock (6, 7: equal only when the same object); share=1: reuse the object made earlier for (kind, content)
EQ_MAIN = [2, 5, 6, 7, 0, 1]
EQ_RUNS = [(), ((3, 0, 0),), ((4, 1, 0),), ((3, 0, 0), (4, 1, 0)), ((4, 1, 0), (3, 0, 0)), ((3, 0, 0), (3, 0, 0)),
           ((4, 2, 1), (4, 2, 1))]

# "lines" streams: universe blocks (identity = raw) whose start_line is given per block, independent of the position
LINE_VALUES = [None, 0, 1, 2]
TIE_PAIRS = [(5, 5), (8, 8), (5, 8), (8, 5), (6, 6), (7, 7), (6, 7), (7, 6), (0, 0), (3, 3), (1, 1), (2, 2), (2, 5), (8, 9), (9, 10),
             (10, 10), (9, 9), (0, 3), (1, 3)]
LINE_RUNS = [(), (6,), (7, 6)]
# "ops" stream: a library assembled by several parses into ONE Library, blocks moved by remove+add, blocks built in code added
PIECES = ['@preamble{"pa"}\n', '\n\n@preamble{"pb"}\n', '@string{a = "x"}\n', '@string{b = "y"}\n\n', '@article{a, t = {1}}\n',
          '@article{b,\n t = {2}\n}\n', '@article{B, t = {3}}\n', '@comment{ec}\n', '% ic one\n\n', '% ic two\n% more\n\n',
          '@article{dupf, t = {1}, t = {2}}\n', '@article{broken, t = {1\n', '@article{, t = {e}}\n', '@preamble{"pa"\n',
          '@misc{a, u = {4}}\n', '\n']


def subperms(xs):
    for k in range(len(xs) + 1):
        for p in itertools.permutations(xs, k):
            yield list(p)


def rand_seq(rng, maxlen, minlen=0):
    n = rng.randint(minlen, maxlen)
    return [rng.choice(COMMENTS) if rng.random() < 0.35 else rng.choice([0, 1, 2, 3, 4, 5, 8, 9, 10, 11, 0, 1, 3]) for _ in range(n)]


def generate(rng, tier):
    cases = []

    def add(stream, seq, order, preserve, times=1, tamper=None):
        cases.append({"stream": stream, "input": {"seq": seq, "order": order, "preserve": bool(preserve), "times": times,
                                                   "tamper": tamper}})
    orders = list(subperms(FIVE))
    assert len(orders) == 326
    quick = tier == "quick"
    maxlen = 5 if quick else 7
    per = 6 if quick else 250
    for order in orders:
        for preserve in (0, 1):
            for _ in range(per):
                add("sampled", rand_seq(rng, maxlen, 2), order, preserve)
    # all short sequences under several configurations
    exh = 2 if quick else 3
    for n in range(exh + 1):
        for seq in itertools.product(range(U_N), repeat=n):
            cfgs = [(DEFAULT_ORDER, 1), (DEFAULT_ORDER, 0)]
            for _ in range(2 if quick else 6):
                cfgs.append((rng.choice(orders), rng.randint(0, 1)))
            for order, preserve in cfgs:
                add("exhaustive", list(seq), order, preserve)
    # orders that name failed-block classes or the abstract Block (exact class decides, not isinstance)
    n_x = 300 if quick else 12000
    for _ in range(n_x):
        k = rng.randint(1, 6)
        order = rng.sample(range(10), k)
        add("extra-orders", rand_seq(rng, maxlen, 2), order, rng.randint(0, 1))
    # sorting the result again
    n_t = 200 if quick else 8000
    for _ in range(n_t):
        add("twice", rand_seq(rng, maxlen, 2), rng.choice(orders), rng.randint(0, 1), times=2)
    # comment-heavy libraries: leading, inner and trailing runs
    n_c = 300 if quick else 10000
    for _ in range(n_c):
        n = rng.randint(2, maxlen)
        seq = [rng.choice(COMMENTS) if rng.random() < 0.6 else rng.choice([0, 1, 3, 5, 8, 2]) for _ in range(n)]
        add("comment-runs", seq, rng.choice(orders), 1 if rng.random() < 0.8 else 0)
    # keys edited after insertion: two live entries/strings share a key, Library(blocks=...) wraps again
    n_k = 100 if quick else 4000
    for _ in range(n_k):
        seq = rand_seq(rng, maxlen, 2)
        add("tampered", seq, rng.choice(orders), rng.randint(0, 1), tamper=[rng.randrange(len(seq)), rng.choice(["a", "b", "", "B"])])
    # blocks that compare equal without being identical, or the same object held several times (no line numbers: built in code)
    def add_eq(stream, items, order, preserve, times=1, line=None):
        cases.append({"stream": stream, "input": {"items": items, "order": order, "preserve": bool(preserve), "times": times,
                                                   "line": line}})
    all_orders = orders + [rng.sample(range(10), rng.randint(1, 6)) for _ in range(40)]
    fillers = [[], [[0, 0, 0]], [[1, 0, 0]], [[2, 1, 0]], [[0, 0, 0], [3, 2, 0]], [[5, 1, 0]]]
    for kind in EQ_MAIN:
        for share in (0, 1):
            for r1 in EQ_RUNS:
                for r2 in EQ_RUNS:
                    for preserve in (1, 0):
                        ords = [DEFAULT_ORDER, rng.choice(all_orders)] if quick else [DEFAULT_ORDER] + [rng.choice(all_orders) for _ in range(5)]
                        for order in ords:
                            items = ([list(x) for x in r1] + [[kind, 0, 0]] + [list(x) for x in rng.choice(fillers)]
                                     + [list(x) for x in r2] + [[kind, 0, share]]
                                     + [list(x) for x in rng.choice([[], [], [[3, 0, 0]], [[4, 1, 0], [3, 0, 0]]])])
                            add_eq("equal-pairs", items, order, preserve, line=rng.choice([None, None, 0]))
    n_e = 500 if quick else 20000
    for _ in range(n_e):
        n = rng.randint(2, maxlen + 1)
        items = []
        for _ in range(n):
            if rng.random() < 0.45:
                items.append([rng.choice((3, 4)), rng.randint(0, 2), rng.randint(0, 1)])
            else:
                items.append([rng.choice([2, 2, 5, 5, 0, 1, 6, 7]), rng.randint(0, 1) if rng.random() < 0.3 else 0, rng.randint(0, 1)])
        add_eq("equal-sampled", items, rng.choice(all_orders), 1 if rng.random() < 0.7 else 0, times=rng.choice([1, 1, 2]),
               line=rng.choice([None, None, 0]))
    # start_line values that are NOT in library order (equal, decreasing, None mixed with numbers): stability follows the
    # position in the library, never the line number.  Every pair of blocks that can tie x every pair of line values.
    def add_lines(stream, seq, lines, order, preserve, times=1):
        cases.append({"stream": stream, "input": {"seq": seq, "lines": lines, "order": order, "preserve": bool(preserve),
                                                   "times": times}})
    for u1, u2 in TIE_PAIRS:
        for l1 in LINE_VALUES:
            for l2 in LINE_VALUES:
                for preserve in (0, 1):
                    runs = [((), ())] if not preserve else [((), ()), (rng.choice(LINE_RUNS[1:]), rng.choice(LINE_RUNS))]
                    for r1, r2 in runs:
                        seq = list(r1) + [u1] + list(r2) + [u2]
                        # comments carry line numbers of their own, in or out of step with the block below them
                        lines = [rng.choice(LINE_VALUES) for _ in r1] + [l1] + [rng.choice(LINE_VALUES) for _ in r2] + [l2]
                        ords = [[], DEFAULT_ORDER] if quick else [[], DEFAULT_ORDER, rng.choice(all_orders), rng.choice(all_orders)]
                        for order in ords:
                            add_lines("lines-pairs", seq, lines, order, preserve)
    n_l = 500 if quick else 20000
    for _ in range(n_l):
        seq = rand_seq(rng, maxlen + 1, 2)
        if rng.random() < 0.5:
            seq = [rng.choice([5, 5, 8, 6, 7, 0, 3]) if rng.random() < 0.6 else u for u in seq]      # many blocks that tie
        n = len(seq)
        mode = rng.randrange(5)
        if mode == 0:
            lines = rng.sample(range(n), n)                                   # a permutation of the positions
        elif mode == 1:
            lines = [n - 1 - i for i in range(n)]                             # exactly reversed
        elif mode == 2:
            lines = [rng.choice([0, 1, 2]) for _ in range(n)]                 # many equal values
        elif mode == 3:
            lines = [rng.choice([None, None, 0, 1, 2, 3, 7]) for _ in range(n)]   # code-built blocks among numbered ones
        else:
            k = rng.randint(1, n - 1)
            lines = list(range(k)) + list(range(n - k))                       # two sources, numbering restarts
        add_lines("lines-sampled", seq, lines, rng.choice(all_orders), rng.randint(0, 1), times=rng.choice([1, 1, 1, 2]))
    # the same through the public API: several parses into one Library, remove+add, code-built blocks added to parsed ones
    n_o = 300 if quick else 12000
    for _ in range(n_o):
        ops = []
        for _ in range(rng.randint(1, 3)):
            ops.append(["parse", [rng.randrange(len(PIECES)) for _ in range(rng.randint(1, 4 if quick else 6))]])
        for _ in range(rng.choice([0, 0, 1, 1, 2])):
            pos = rng.randint(1, len(ops))
            if rng.random() < 0.6:
                ops.insert(pos, ["move", rng.randrange(8)])
            else:
                ops.insert(pos, ["add", rng.choice([5, 5, 8, 6, 7, 0, 1, 3, 9, 10]), rng.choice([None, None, 0, 1, 5])])
        if len(ops) == 1 and rng.random() < 0.8:
            ops.append(["move", rng.randrange(4)])
        cases.append({"stream": "assembled", "input": {"ops": ops, "order": rng.choice(all_orders), "preserve": bool(rng.randint(0, 1)),
                                                        "times": rng.choice([1, 1, 1, 2])}})
    generate_userclasses(rng, quick, maxlen, cases)
    from . import c16_state
    c16_state.generate_state(rng, quick, maxlen, cases, orders, all_orders)
    from . import c16_names
    c16_names.generate_names(rng, quick, maxlen, cases, rand_seq)
    return cases


def uc_order(rng):
    """Per class: neither / the base / the subclass / both (shuffled, so either way round); sometimes a failed-block class or
    Block in between, sometimes cut short."""
    codes = []
    for c in FIVE:
        m = rng.randrange(5)
        if m in (1, 3, 4):
            codes.append(c)
        if m in (2, 3, 4):
            codes.append(10 + c)
    rng.shuffle(codes)
    if rng.random() < 0.15:
        codes.insert(rng.randint(0, len(codes)), rng.choice([5, 6, 7, 8, 9]))
    if rng.random() < 0.3:
        codes = codes[:rng.randint(0, len(codes))]
    return codes


def generate_userclasses(rng, quick, maxlen, cases):
    """Instances of user subclasses among the blocks, a Library subclass, orders listing base / subclass / both / neither as tuple
    or list (also empty), None where it is accepted.  Appended after the older streams (their cases stay what they were)."""
    def add(stream, seq, sub, order, preserve, order_as=None, libcls=None, times=1):
        if order_as is None:
            order_as = rng.choice(["tuple", "list"])
        if libcls is None:
            libcls = rng.choice(["plain", "plain", "sub"])
        cases.append({"stream": stream, "input": {"seq": list(seq), "sub": [int(x) for x in sub], "order": order, "order_as": order_as,
                                                   "libcls": libcls, "preserve": preserve, "times": times}})

    def modes_for(c):
        return [[], [c], [10 + c], [c, 10 + c], [10 + c, c]]
    # every pair of blocks x plain/subclass for each x both modes; the order runs through the five ways of listing the class of
    # the first block (with the class of the second somewhere), and a random one
    pair_u = [0, 1, 2, 3, 4, 5, 6, 7, 8]
    k = 0
    for u1 in pair_u:
        for u2 in pair_u:
            for f1 in ((0, 1) if u1 in U_CLASS else (0,)):
                for f2 in ((0, 1) if u2 in U_CLASS else (0,)):
                    for preserve in (True, False):
                        c1, c2 = U_CLASS.get(u1, U_CLASS.get(u2, 0)), U_CLASS.get(u2, U_CLASS.get(u1, 0))
                        o = list(modes_for(c1)[k % 5])
                        k += 1
                        if c2 != c1:
                            for x in rng.choice(modes_for(c2)):
                                o.insert(rng.randint(0, len(o)), x)
                        ords = [o, uc_order(rng)] if quick else [o, uc_order(rng), uc_order(rng), uc_order(rng), list(rng.choice(modes_for(c1)))]
                        for order in ords:
                            add("uc-pairs", [u1, u2], [f1, f2], order, preserve)
    # comment runs of plain / subclass comments above a block that has to move (or not), and trailing runs
    runs = [(6,), (7,), (6, 7), (7, 6), (6, 6)]
    for run in runs:
        for flags in itertools.product((0, 1), repeat=len(run)):
            for x in (0, 3, 5, 8):
                for y in (1, 4, 5, 6, 7):
                    for _ in range(1 if quick else 6):
                        fx, fy = rng.randint(0, 1), rng.randint(0, 1)
                        shape = rng.randrange(4)
                        if shape == 0:
                            seq, sub = list(run) + [x, y], list(flags) + [fx, fy]
                        elif shape == 1:
                            seq, sub = [x] + list(run) + [y], [fx] + list(flags) + [fy]
                        elif shape == 2:
                            seq, sub = list(run) + [x] + list(run) + [y], list(flags) + [fx] + [1 - f for f in flags] + [fy]
                        else:
                            seq, sub = [x, y] + list(run), [fx, fy] + list(flags)
                        sub = [f if u in U_CLASS else 0 for u, f in zip(seq, sub)]
                        add("uc-comment-runs", seq, sub, uc_order(rng), True if rng.random() < 0.8 else rng.choice([False, None]))
    # sampled libraries: no / some / most / all blocks are subclass instances
    n_s = 900 if quick else 40000
    for _ in range(n_s):
        seq = rand_seq(rng, maxlen + 1, 0 if rng.random() < 0.03 else 2)
        p = rng.choice([0.0, 0.3, 0.3, 0.6, 1.0])
        sub = [1 if u in U_CLASS and rng.random() < p else 0 for u in seq]
        order = uc_order(rng) if rng.random() < 0.8 else [c if rng.random() < 0.5 else 10 + c for c in rng.sample(FIVE, rng.randint(0, 5))]
        add("uc-sampled", seq, sub, order, rng.choice([True, True, False, False, None]), times=rng.choice([1, 1, 1, 2]))
    # the parameters alone, on plain blocks (the model follows): Library subclass, list / tuple, empty orders, None
    plain_seqs = [[], [0, 1], [6, 0, 1], [5, 6, 7, 3, 0, 4, 1], [0, 7]]
    for libcls in ("plain", "sub", "plain-none", "sub-none"):
        for order, order_as in (([], "tuple"), ([], "list"), (DEFAULT_ORDER, "list"), (DEFAULT_ORDER, "tuple"), ([10, 11, 12, 13, 14], "list"),
                                (uc_order(rng), "list"), (uc_order(rng), "tuple")):
            for preserve in (True, False, None):
                for seq in ([[]] if libcls.endswith("none") else plain_seqs + [rand_seq(rng, maxlen, 2)]):
                    add("uc-parameters", seq, [0] * len(seq), list(order), preserve, order_as, libcls, times=rng.choice([1, 1, 2]))
    # block_type_order=None: not a block-type order (refused today); if a tree accepts it, what does not depend on the order must hold
    for _ in range(24 if quick else 400):
        seq = rand_seq(rng, maxlen, 2)
        add("uc-order-none", seq, [1 if u in U_CLASS and rng.random() < 0.3 else 0 for u in seq], None, rng.choice([True, False, None]),
            "none", times=1)


def shrink(case):
    inp = case["input"]
    out = []

    def mk(**kw):
        d = dict(inp)
        d.update(kw)
        out.append({"stream": "shrink", "input": d})
    if "names" in inp:
        from . import c16_names
        return c16_names.shrink_names(case)
    if "state" in inp:
        from . import c16_state
        return c16_state.shrink_state(case)
    if "sub" in inp:
        seq, sub, order = inp["seq"], inp["sub"], inp["order"]
        for i in range(len(seq)):
            mk(seq=seq[:i] + seq[i + 1:], sub=sub[:i] + sub[i + 1:])
        for i in range(len(sub)):
            if sub[i]:
                mk(sub=sub[:i] + [0] + sub[i + 1:])
        for i in range(len(order or [])):
            mk(order=order[:i] + order[i + 1:])
        if inp["times"] > 1:
            mk(times=1)
        if inp["libcls"] == "sub":
            mk(libcls="plain")
        if inp["order_as"] == "list":
            mk(order_as="tuple")
        if inp["preserve"] is None:
            mk(preserve=False)
        return out
    if "items" in inp:
        items, order = inp["items"], inp["order"]
        for i in range(len(items)):
            mk(items=items[:i] + items[i + 1:])
        for i in range(len(order)):
            mk(order=order[:i] + order[i + 1:])
        if inp["times"] > 1:
            mk(times=1)
        return out
    if "ops" in inp:
        ops, order = inp["ops"], inp["order"]
        for i in range(len(ops)):
            mk(ops=ops[:i] + ops[i + 1:])
            if ops[i][0] == "parse":
                ps = ops[i][1]
                for j in range(len(ps)):
                    mk(ops=ops[:i] + [["parse", ps[:j] + ps[j + 1:]]] + ops[i + 1:])
        for i in range(len(order)):
            mk(order=order[:i] + order[i + 1:])
        if inp["times"] > 1:
            mk(times=1)
        return out
    if "lines" in inp:
        seq, lines, order = inp["seq"], inp["lines"], inp["order"]
        for i in range(len(seq)):
            mk(seq=seq[:i] + seq[i + 1:], lines=lines[:i] + lines[i + 1:])
        for i in range(len(order)):
            mk(order=order[:i] + order[i + 1:])
        if inp["times"] > 1:
            mk(times=1)
        return out
    seq, order = inp["seq"], inp["order"]
    for i in range(len(seq)):
        t = inp["tamper"]
        if t is not None:
            if t[0] == i:
                continue
            t = [t[0] - 1 if t[0] > i else t[0], t[1]]
        mk(seq=seq[:i] + seq[i + 1:], tamper=t)
    for i in range(len(order)):
        mk(order=order[:i] + order[i + 1:])
    if inp["times"] > 1:
        mk(times=1)
    if inp["tamper"] is not None:
        mk(tamper=None)
    return out


# ---------------------------------------------------------------------------------------------- implementation side
def make_block(u, uid, line=-1):
    """Universe block u with identity uid (in raw and content); start_line = uid unless a line (a number or None) is given."""
    from bibtexparser.model import (Entry, Field, String, Preamble, ExplicitComment, ImplicitComment, ParsingFailedBlock,
                                    DuplicateFieldKeyBlock, MiddlewareErrorBlock)
    raw = "r%d" % uid
    i = uid if line == -1 else line
    if u in (0, 1, 2, 11):
        key = {0: "b", 1: "a", 2: "", 11: "B"}[u]
        return Entry("article", key, [Field("t", "v%d" % uid, 1)], start_line=i, raw=raw)
    if u in (3, 4):
        return String({3: "a", 4: "b"}[u], "s%d" % uid, i, raw)
    if u == 5:
        return Preamble("p%d" % uid, i, raw)
    if u == 6:
        return ExplicitComment("ec%d" % uid, i, raw)
    if u == 7:
        return ImplicitComment("ic%d" % uid, i, raw)
    if u == 8:
        return ParsingFailedBlock(Exception("boom"), i, raw)
    if u == 9:
        return DuplicateFieldKeyBlock({"t"}, Entry("misc", "a", [Field("t", "1", 1), Field("t", "2", 2)], start_line=i, raw=raw))
    if u == 10:
        return MiddlewareErrorBlock(Entry("misc", "c", [Field("t", "1", 1)], start_line=i, raw=raw), ValueError("m"))
    raise ValueError(u)


def assemble(ops):
    """A library put together the way users do: several parse_string calls into ONE Library (line numbers restart with every
    source), blocks moved to the end by remove + add, blocks built in code (own or no line number) added to parsed ones.
    Returns (library, notes); an operation the Library itself refuses is left out and noted (not C16's subject)."""
    import logging
    import bibtexparser
    from bibtexparser.library import Library
    logging.disable(logging.CRITICAL)          # the splitter logs every block it gives up on
    lib, notes, made = Library(), [], 0
    for op in ops:
        assert op[0] in ("parse", "move", "add"), op
        try:
            if op[0] == "parse":
                lib = bibtexparser.parse_string("".join(PIECES[k] for k in op[1]), parse_stack=[], library=lib)
            elif op[0] == "move":
                if lib.blocks:
                    b = lib.blocks[op[1] % len(lib.blocks)]
                    lib.remove(b)
                    lib.add(b)
                    notes.append("moved")
            elif op[0] == "add":
                made += 1
                lib.add(make_block(op[1], 1000 + made, op[2]))
                notes.append("code-built")
        except Exception as e:                 # the library refused the step: sort what is there
            notes.append("step-refused:" + type(e).__name__)
    return lib, notes


def cname(b):
    return type(b).__name__


def base_name(b):
    """The library's class a block is an instance of (a user subclass of Entry IS an entry); the exact class for its own."""
    for k in type(b).__mro__:
        if k.__name__ in LIB_NAMES and k.__module__ == "bibtexparser.model":
            return k.__name__
    return type(b).__name__


def is_comment(b):
    return base_name(b) in ("ExplicitComment", "ImplicitComment")


def key_of(b):
    return b.key if base_name(b) in ("Entry", "String", "DuplicateBlockKeyBlock") else ""


def has_sub(b):
    """Is b, or a block it wraps, an instance of a user subclass (which the model cannot represent)?"""
    if b is None:
        return False
    if cname(b) == "DuplicateBlockKeyBlock":
        return has_sub(b.previous_block) or has_sub(b.ignore_error_block)
    return cname(b) not in LIB_NAMES


def enc_u(b):
    """enc.enc_block extended to instances of user subclasses (alone or wrapped as a duplicate): the exact class and the
    encoding of an instance of the library class with the same attributes.  Identical to enc.enc_block on library classes."""
    import enc
    n = cname(b)
    if n in SUB_NAMES:
        base = [k for k in type(b).__mro__ if k.__name__ == base_name(b)][0]
        p = base.__new__(base)
        p.__dict__.update(b.__dict__)
        return [100 + SUB_NAMES.index(n), enc.enc_block(p)]
    if n == "DuplicateBlockKeyBlock" and has_sub(b):
        return [enc.B_DUPKEY, enc.enc_hdr(b), enc.enc_str(b.key), enc_u(b.previous_block), enc_u(b.ignore_error_block)]
    return enc.enc_block(b)


def arrangement(before, names, preserve, exact=True, subkeys=True, subcomments=True):
    """Positions of the input blocks in THE stable arrangement by (type rank, key) (it is unique).  The three switches give the
    arrangement a tree would produce that ranked subclass instances as their base class / ignored their keys / did not take
    them for comments: where it differs from the right one, the case can tell such a tree from a correct one."""
    def isub(b):
        return cname(b) in SUB_NAMES

    def com(b):
        return is_comment(b) and (subcomments or not isub(b))

    def sk(u):
        b = before[u[-1]]
        c = cname(b) if exact else base_name(b)
        return (names.index(c) if c in names else len(names), key_of(b) if (subkeys or not isub(b)) else "")
    units, cur = [], []
    for i, b in enumerate(before):
        cur.append(i)
        if not (preserve and com(b)):
            units.append(cur)
            cur = []
    if cur:
        units.append(cur)
    return [i for u in sorted(units, key=sk) for i in u]


def units_of(blocks, preserve):
    """The units that move together: single blocks, or (comment run + the block below it; a trailing run alone)."""
    if not preserve:
        return [[b] for b in blocks]
    res, i, n = [], 0, len(blocks)
    while i < n:
        j = i
        while j < n and is_comment(blocks[j]):
            j += 1
        if j < n:
            res.append(blocks[i:j + 1])
            i = j + 1
        else:
            res.append(blocks[i:])
            i = n
    return res


def check_sort(before, before_enc, out_blocks, order, preserve, tampered):
    """Property text on one application. before: input blocks (unchanged objects), out_blocks: result blocks."""
    names = [CLASS_NAMES[c] for c in order] if order is not None else None      # None: only what holds under every order
    outb = list(out_blocks)
    if tampered:
        # a library whose keys were edited may hold two live blocks with one key; rebuilding wraps the later one: look through
        in_cls = {b.start_line: cname(b) for b in before}
        outb = [b.ignore_error_block if cname(b) == "DuplicateBlockKeyBlock" and in_cls.get(b.start_line) in ("Entry", "String") else b
                for b in outb]
    out_enc = [json.dumps(enc_u(b)) for b in outb]
    if sorted(out_enc) != sorted(before_enc):
        return "blocks lost, duplicated or altered: %r -> %r" % ([(cname(b), b.start_line) for b in before],
                                                                [(cname(b), b.start_line) for b in outb])
    uid_out = [b.start_line for b in outb]
    us = units_of(before, preserve)
    by_first = {u[0].start_line: (k, u) for k, u in enumerate(us)}
    seq, p = [], 0
    while p < len(uid_out):
        if uid_out[p] not in by_first:
            return "block %d is not at the start of a unit in the output %r" % (uid_out[p], uid_out)
        k, u = by_first[uid_out[p]]
        ids = [b.start_line for b in u]
        if uid_out[p:p + len(ids)] != ids:
            return "unit %r torn apart: output %r" % (ids, uid_out)
        seq.append(k)
        p += len(ids)

    def sk(k):
        main = us[k][-1]
        c = cname(main)
        return (names.index(c) if c in names else len(names), key_of(main))
    for x, y in zip(seq, seq[1:] if names is not None else []):
        if sk(x) > sk(y):
            return "not ordered by (type rank, key): %r before %r in %r" % (sk(x), sk(y), uid_out)
        if sk(x) == sk(y) and x > y:
            return "equal (rank, key) %r lost original order: %r" % (sk(x), uid_out)
    if preserve:
        for i, b in enumerate(before):
            if is_comment(b):
                continue
            j = i
            while j > 0 and is_comment(before[j - 1]):
                j -= 1
            run = [c.start_line for c in before[j:i]]
            q = uid_out.index(b.start_line)
            if run and uid_out[max(0, q - len(run)):q] != run:
                return "comment run %r no longer directly above block %d: %r" % (run, b.start_line, uid_out)
    return ""


def make_equal_blocks(items, line):
    """Blocks without individual line numbers/raw: equal (kind, content) gives blocks that compare equal; share=1 the same object."""
    from bibtexparser.model import (Entry, Field, String, Preamble, ExplicitComment, ImplicitComment, ParsingFailedBlock,
                                    DuplicateFieldKeyBlock, MiddlewareErrorBlock)
    made, excs, res = {}, {}, []
    for u, c, share in items:
        if share and (u, c) in made:
            res.append(made[(u, c)])
            continue
        if u == 0:
            b = Entry("article", "ab"[c % 2], [Field("t", "v", line)], start_line=line)
        elif u == 1:
            b = String("ab"[c % 2], "s", line)
        elif u == 2:
            b = Preamble("p%d" % c, line)
        elif u == 3:
            b = ExplicitComment("c%d" % c, line)
        elif u == 4:
            b = ImplicitComment("c%d" % c, line)
        elif u == 5:
            b = ParsingFailedBlock(excs.setdefault(c, Exception("boom")), line, "f%d" % c)
        elif u == 6:
            b = DuplicateFieldKeyBlock({"t"}, Entry("misc", "a", [Field("t", "1", line), Field("t", "2", line)], start_line=line))
        elif u == 7:
            b = MiddlewareErrorBlock(Entry("misc", "c", [Field("t", "1", line)], start_line=line), excs.setdefault(-1 - c, ValueError("m")))
        else:
            raise ValueError(u)
        made.setdefault((u, c), b)
        res.append(b)
    return res


def check_sort_by_value(before, before_enc, out_blocks, order, preserve):
    """Property text on one application when blocks have no identity visible in their value (equal or shared blocks).

    The input blocks are identified by position.  A stable sort of the units by (type rank, key) is unique, so an output
    that holds exactly the input blocks, ordered and stable, with every comment run still above its own block exists in one
    arrangement only, up to exchanging blocks of equal value: the output must read, value by value, like that arrangement."""
    import enc
    names = [CLASS_NAMES[c] for c in order]
    out_enc = [json.dumps(enc.enc_block(b)) for b in out_blocks]
    short = {}

    def nm(e, b=None):
        if e not in short:
            short[e] = "%s#%d" % (cname(b)[:8] if b is not None else "?", len(short))
        return short[e]
    for e, b in zip(before_enc, before):
        nm(e, b)
    show_in = [nm(e) for e in before_enc]
    show_out = [nm(e, b) for e, b in zip(out_enc, out_blocks)]
    if sorted(out_enc) != sorted(before_enc):
        lost = list(before_enc)
        extra = []
        for e in out_enc:
            if e in lost:
                lost.remove(e)
            else:
                extra.append(e)
        return "blocks lost, duplicated or altered: %r -> %r (lost %r, surplus %r)" % (
            show_in, show_out, [nm(e) for e in lost], [nm(e) for e in extra])
    pos_units = units_of(list(range(len(before))), False)
    if preserve:
        pos_units, cur = [], []
        for i, b in enumerate(before):
            cur.append(i)
            if not is_comment(b):
                pos_units.append(cur)
                cur = []
        if cur:
            pos_units.append(cur)

    def sk(u):
        main = before[u[-1]]
        c = cname(main)
        return (names.index(c) if c in names else len(names), key_of(main))
    arranged = [i for u in sorted(pos_units, key=sk) for i in u]      # sorted() is stable; units listed in original order
    want = [before_enc[i] for i in arranged]
    if out_enc == want:
        return ""
    if preserve:
        # say which comment run went astray, if that is what happened: for every value of a non-comment block, the runs
        # directly above its occurrences (as long as the run it had in the input) must be the same collection
        for i, b in enumerate(before):
            if is_comment(b):
                continue
            j = i
            while j > 0 and is_comment(before[j - 1]):
                j -= 1
            run = before_enc[j:i]
            if not run:
                continue
            n_in = sum(1 for k in range(len(before)) if before_enc[k] == before_enc[i] and k >= len(run)
                       and before_enc[k - len(run):k] == run)
            n_out = sum(1 for k in range(len(out_enc)) if out_enc[k] == before_enc[i] and k >= len(run)
                        and out_enc[k - len(run):k] == run)
            if n_out < n_in:
                return "comment run %r no longer directly above its block %s (input position %d): %r -> %r" % (
                    [nm(e) for e in run], nm(before_enc[i]), i, show_in, show_out)
    return "not the stable arrangement by (type rank, key)%s: %r -> %r, expected %r" % (
        " of blocks with their comment runs" if preserve else "", show_in, show_out, [nm(e) for e in want])


def impl_uc(case):
    """User classes: subclass instances among the blocks, Library subclass, order as tuple / list / None, preserve None."""
    import enc
    import implutil
    import bibtexparser.model as M
    from bibtexparser.library import Library
    from bibtexparser.middlewares import SortBlocksByTypeAndKeyMiddleware
    from . import userclasses
    uc = userclasses.get()
    inp = case["input"]
    seq, sub, order, preserve, times = inp["seq"], inp["sub"], inp["order"], inp["preserve"], inp["times"]
    given = [make_block(u, i) for i, u in enumerate(seq)]
    given = [uc.as_sub(b) if f else b for b, f in zip(given, sub)]
    libcls = uc.SubLibrary if inp["libcls"].startswith("sub") else Library
    lib = libcls(None) if inp["libcls"].endswith("none") and not given else libcls(given)
    on = bool(preserve)                      # None is falsy: comment preservation is not on
    if order is None:
        arg = None
    else:
        arg = [getattr(M, CLASS_NAMES[c]) if c < 10 else getattr(uc, CLASS_NAMES[c]) for c in order]
        arg = tuple(arg) if inp["order_as"] == "tuple" else arg
    modelled = order is not None and not any(has_sub(b) for b in lib.blocks)
    rec = {"sx_in": [50, times, int(on), list(order), [enc.enc_block(b) for b in lib.blocks]] if modelled else None, "sx_out": None,
           "key": json.dumps(inp, sort_keys=True), "nontrivial": len(seq) >= 2, "tags": []}
    tags = rec["tags"]
    n_sub = sum(1 for b in lib.blocks if has_sub(b))
    tags.append("uc:subclass-instances=" + ("none" if n_sub == 0 else "all" if n_sub == len(lib.blocks) else "some"))
    tags.append("uc:model-compared" if modelled else "uc:oracle-only")
    if libcls is not Library:
        tags.append("uc:library-subclass")
    if inp["libcls"].endswith("none") and not given:
        tags.append("uc:library-blocks-none")
    if preserve is None:
        tags.append("uc:preserve-none")
    if order is not None:
        tags.append("uc:order-as-" + inp["order_as"] + ("-empty" if not order else ""))
    mw = implutil.guarded(lambda: SortBlocksByTypeAndKeyMiddleware(block_type_order=arg, preserve_comments_on_top=preserve))
    if mw[0] == "exc":
        if order is None:                    # None is not a block-type order: refusing it is no concern of the property
            tags.append("uc:order-none-refused")
            rec["oracle"] = {"ok": True, "detail": ""}
            rec["summary"] = "constructor raised " + mw[2]
            return rec
        rec["sx_out"] = implutil.r_exc(mw[1]) if modelled else None
        rec["oracle"] = {"ok": False, "detail": "constructor raised %s for order %r given as %s" % (
            mw[2], [CLASS_NAMES[c] for c in order], inp["order_as"])}
        rec["summary"] = "constructor raised " + mw[2]
        return rec
    mw = mw[1]
    complaints = []
    cur = lib
    names = [CLASS_NAMES[c] for c in order] if order is not None else None
    for t in range(times):
        objs = list(cur.blocks)
        before_enc = [json.dumps(enc_u(b)) for b in objs]
        r = implutil.guarded(lambda: mw.transform(cur))
        if r[0] == "exc":
            if order is None:
                tags.append("uc:order-none-refused")
                rec["oracle"] = {"ok": True, "detail": ""}
                rec["summary"] = "transform raised " + r[2]
                return rec
            rec["sx_out"] = implutil.r_exc(r[1]) if modelled else None
            rec["oracle"] = {"ok": False, "detail": "transform raised %s" % r[2]}
            rec["summary"] = "raised " + r[2]
            return rec
        out = r[1]
        if len(cur.blocks) != len(objs) or any(a is not b for a, b in zip(cur.blocks, objs)) \
                or [json.dumps(enc_u(b)) for b in cur.blocks] != before_enc:
            complaints.append("the input library was changed")
        if out is cur:
            complaints.append("the input library object was returned")
        if not hasattr(out, "blocks"):
            complaints.append("the result is no library: %s" % type(out).__name__)
            break
        c = check_sort(objs, before_enc, out.blocks, order, on, False)
        if not c and names is not None:
            want = [objs[i].start_line for i in arrangement(objs, names, on)]
            got = [b.start_line for b in out.blocks]
            if got != want:
                c = "not the stable arrangement by (exact type rank, key): %r, expected %r" % (got, want)
        if c:
            complaints.append(("pass %d: " % (t + 1) if times > 1 else "") + c)
        if t == 0 and names is not None:
            right = arrangement(objs, names, on)
            if right != list(range(len(objs))):
                tags.append("uc:sorting-moves-a-block")
            if n_sub:
                if arrangement(objs, names, on, exact=False) != right:
                    tags.append("uc:decided-by-exact-type-of-a-subclass-instance")
                if arrangement(objs, names, on, subkeys=False) != right:
                    tags.append("uc:decided-by-key-of-a-subclass-instance")
                if on and arrangement(objs, names, on, subcomments=False) != right:
                    tags.append("uc:decided-by-a-subclass-comment-being-a-comment")
                if arrangement(objs, names, not on) != right and preserve is None:
                    tags.append("uc:decided-by-preserve-none-being-off")
            elif preserve is None and arrangement(objs, names, not on) != right:
                tags.append("uc:decided-by-preserve-none-being-off")
            if arrangement(objs, [CLASS_NAMES[c] for c in DEFAULT_ORDER], on) != right and not order:
                tags.append("uc:decided-by-the-empty-order-not-being-the-default")
            # how the order lists the classes of the subclass instances present
            for k in range(5):
                if any(cname(b) == SUB_NAMES[k] for b in objs):
                    tags.append("uc:order-lists-" + {(0, 0): "neither", (1, 0): "base-only", (0, 1): "subclass-only", (1, 1): "base-and-subclass"}[
                        (int(k in order), int(10 + k in order))] + "-for-a-subclass-instance")
        cur = out
    if order is None:
        tags.append("uc:order-none-accepted")
    rec["sx_out"] = implutil.r_ok([enc.enc_block(b) for b in cur.blocks]) if modelled else None
    rec["oracle"] = {"ok": not complaints, "detail": "; ".join(complaints)[:600]}
    rec["summary"] = repr([(cname(b)[:9], b.start_line) for b in cur.blocks])[:240]
    tags.append("len=%d" % len(seq))
    tags.append("preserve" if on else "no-preserve")
    if order is not None:
        tags.append("order-len=%d" % len(order))
    if any(cname(b) == "DuplicateBlockKeyBlock" for b in lib.blocks):
        tags.append("has-duplicate-key-block")
    return rec


def impl(case):
    import enc
    import implutil
    import bibtexparser.model as M
    from bibtexparser.library import Library
    from bibtexparser.middlewares import SortBlocksByTypeAndKeyMiddleware
    inp = case["input"]
    if "names" in inp:
        from . import c16_names
        return c16_names.impl_names(case)
    if "state" in inp:
        from . import c16_state
        return c16_state.impl_state(case)
    if "sub" in inp:
        return impl_uc(case)
    by_value = "items" in inp or "lines" in inp or "ops" in inp
    eq_stream = "items" in inp
    notes = []
    if eq_stream:
        order, preserve, times, tamper = inp["order"], inp["preserve"], inp["times"], None
        given = make_equal_blocks(inp["items"], inp["line"])
        seq = inp["items"]
        lib = Library(given)
    elif "lines" in inp:
        # identity is in raw / content; start_line is whatever the case says, unrelated to the position in the library
        order, preserve, times, tamper = inp["order"], inp["preserve"], inp["times"], None
        seq = inp["seq"]
        lib = Library([make_block(u, i, inp["lines"][i]) for i, u in enumerate(seq)])
    elif "ops" in inp:
        order, preserve, times, tamper = inp["order"], inp["preserve"], inp["times"], None
        lib, notes = assemble(inp["ops"])
        seq = list(lib.blocks)
    else:
        seq, order, preserve, times, tamper = inp["seq"], inp["order"], inp["preserve"], inp["times"], inp["tamper"]
        lib = Library([make_block(u, i) for i, u in enumerate(seq)])
    tampered = False
    if tamper is not None:
        b = lib.blocks[tamper[0]]
        if cname(b) in ("Entry", "String", "DuplicateBlockKeyBlock"):
            b.key = tamper[1]
            tampered = True
    classes = tuple(getattr(M, CLASS_NAMES[c]) for c in order)
    sx_in = [50, times, int(preserve), list(order), [enc.enc_block(b) for b in lib.blocks]]
    rec = {"sx_in": sx_in, "key": json.dumps(inp, sort_keys=True), "nontrivial": len(seq) >= 2, "tags": []}
    mw = implutil.guarded(lambda: SortBlocksByTypeAndKeyMiddleware(block_type_order=classes, preserve_comments_on_top=preserve))
    if mw[0] == "exc":
        rec["sx_out"] = implutil.r_exc(mw[1])
        rec["oracle"] = {"ok": False, "detail": "constructor raised %s for order %r" % (mw[2], order)}
        return rec
    mw = mw[1]
    complaints = []
    cur = lib
    for t in range(times):
        objs = list(cur.blocks)
        before_enc = [json.dumps(enc.enc_block(b)) for b in objs]
        r = implutil.guarded(lambda: mw.transform(cur))
        if r[0] == "exc":
            rec["sx_out"] = implutil.r_exc(r[1])
            rec["oracle"] = {"ok": False, "detail": "transform raised %s" % r[2]}
            rec["summary"] = "raised " + r[2]
            return rec
        out = r[1]
        # the input library is unchanged: same objects in the same order, each structurally as before
        if len(cur.blocks) != len(objs) or any(a is not b for a, b in zip(cur.blocks, objs)) \
                or [json.dumps(enc.enc_block(b)) for b in cur.blocks] != before_enc:
            complaints.append("the input library was changed")
        if out is cur:
            complaints.append("the input library object was returned")
        if by_value:
            c = check_sort_by_value(objs, before_enc, out.blocks, order, preserve)
        else:
            c = check_sort(objs, before_enc, out.blocks, order, preserve, tampered)
        if c:
            complaints.append(("pass %d: " % (t + 1) if times > 1 else "") + c)
        cur = out
    rec["sx_out"] = implutil.r_ok([enc.enc_block(b) for b in cur.blocks])
    rec["oracle"] = {"ok": not complaints, "detail": "; ".join(complaints)[:600]}
    rec["summary"] = repr([(cname(b)[:6], b.start_line) for b in cur.blocks])[:200]
    rec["tags"].append("len=%d" % len(seq))
    rec["tags"].append("preserve" if preserve else "no-preserve")
    rec["tags"].append("order-len=%d" % len(order))
    if any(cname(b) == "DuplicateBlockKeyBlock" for b in lib.blocks):
        rec["tags"].append("has-duplicate-key-block")
    if by_value and not eq_stream:
        # do line numbers and library positions disagree, and does it matter (two units that tie on (type rank, key))?
        blocks = lib.blocks
        names = [CLASS_NAMES[c] for c in order]
        ls = [b.start_line for b in blocks]
        nums = [x for x in ls if x is not None]
        if None in ls and nums:
            rec["tags"].append("numbered-and-unnumbered-blocks")
        if len(set(nums)) < len(nums):
            rec["tags"].append("equal-start-lines")
        if any(a > b for a, b in zip(nums, nums[1:])):
            rec["tags"].append("start-lines-not-in-library-order")
        us = units_of(blocks, preserve)

        def sk(u):
            c = cname(u[-1])
            return (names.index(c) if c in names else len(names), key_of(u[-1]))
        tie = False
        for i in range(len(us)):
            for j in range(i + 1, len(us)):
                if sk(us[i]) == sk(us[j]) and any((x.start_line or 0) > (y.start_line or 0) for x in us[i] for y in us[j]):
                    tie = True
        if tie:
            rec["tags"].append("tie-with-start-lines-against-library-order")
        for n in sorted(set(notes)):
            rec["tags"].append(n)
        rec["summary"] = repr([(cname(b)[:6], b.start_line, (b.raw or "")[:12]) for b in cur.blocks])[:240]
    if eq_stream:
        blocks = lib.blocks
        encs = [json.dumps(enc.enc_block(b)) for b in blocks]
        main = [i for i, b in enumerate(blocks) if not is_comment(b)]

        def run_above(i):
            j = i
            while j > 0 and is_comment(blocks[j - 1]):
                j -= 1
            return encs[j:i]
        pairs = [(i, j) for i in main for j in main if i < j and blocks[i] == blocks[j]]
        if any(blocks[i] is not blocks[j] for i, j in pairs):
            rec["tags"].append("equal-not-identical-blocks")
        if any(blocks[i] is blocks[j] for i, j in pairs):
            rec["tags"].append("same-object-twice")
        if any(run_above(i) != run_above(j) for i, j in pairs):
            rec["tags"].append("equal-blocks-with-different-comment-runs")
        if len(set(encs)) < len(encs) and any(is_comment(b) and encs.count(e) > 1 for b, e in zip(blocks, encs)):
            rec["tags"].append("equal-comments")
        rec["summary"] = repr([cname(b)[:6] + ":" + str(getattr(b, "key", getattr(b, "value", getattr(b, "comment", "")))) for b in cur.blocks])[:200]
    elif not by_value and seq and seq[-1] in COMMENTS and preserve:
        rec["tags"].append("trailing-comment-run")
    if tampered:
        rec["tags"].append("tampered")
    return rec
