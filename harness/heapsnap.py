"""Object-graph observation for C07: reachable mutable objects, structural equality, heap snapshots.

Everything here looks at the implementation's objects from outside (id(), __dict__, list/dict/set/tuple contents);
nothing in /repo is instrumented.  Every walker FAILS CLOSED (raises UnknownObject) on an object type it does not
know, so that an object reachable only through a type we do not understand cannot hide aliasing.

Atoms (identity irrelevant): None, bool, int, float, str, bytes, type objects, and exception instances (the property
text excludes them: ParsingException.__deepcopy__ returns self).  A tuple is immutable but may hold mutable objects: it
is walked through, never counted as a mutable object itself.

An exception object is an atom only as far as ITS OWN identity goes (it may be shared, it is never counted as a mutable
object, and for the Coq heap model - Numbering / atom_code - it is one opaque atom).  What it HOLDS is ordinary state:
the graph walkers of the oracle (reachable, identity_map, struct_diff, clone) pass through it like through a tuple -
args, the attributes in __dict__, and (reachable only) the chained exceptions __cause__ / __context__ - so that a block,
field, list or dict kept as an attribute of the error of a failed block cannot hide aliasing or mutation.  Not followed:
__traceback__ (frames are interpreter state, not data of the library).
"""
import hashlib


class UnknownObject(Exception):
    pass


ATOM_TYPES = (type(None), bool, int, float, str, bytes)
# classes of the implementation whose instances are plain attribute records (walked through __dict__)
INSTANCE_CLASSES = {"Library", "Entry", "String", "Preamble", "ExplicitComment", "ImplicitComment", "Field",
                    "ParsingFailedBlock", "MiddlewareErrorBlock", "DuplicateBlockKeyBlock", "DuplicateFieldKeyBlock",
                    "NameParts", "BibtexFormat", "Block"}


def is_atom(x):
    return isinstance(x, ATOM_TYPES) or isinstance(x, BaseException) or isinstance(x, type)


def is_exc(x):
    return isinstance(x, BaseException)


def is_leaf(x):
    """nothing to enter: an atom that is not an exception object"""
    return is_atom(x) and not isinstance(x, BaseException)


# immutable C-level values that shipped exception classes keep as attributes (RegexMismatchException: re.Match objects)
OPAQUE_IN_EXC = ("re.Match", "re.Pattern", "_sre.SRE_Match", "_sre.SRE_Pattern")
HARNESS_EXC_ATTR_PREFIX = "_c07_"      # notes the harness itself hangs on exceptions it catches


def exc_children(e, chained=False):
    """(edge label, child) of what an exception object holds: args, then its instance attributes sorted by name
    (attribute order of an exception is not observable state); with chained=True also __cause__ / __context__."""
    out = [("!args", e.args)]
    d = getattr(e, "__dict__", None) or {}
    for k in sorted(d, key=str):
        if isinstance(k, str) and k.startswith(HARNESS_EXC_ATTR_PREFIX):
            continue
        v = d[k]
        if "%s.%s" % (type(v).__module__, type(v).__name__) in OPAQUE_IN_EXC:
            v = "<%s>" % type(v).__name__
        out.append((k, v))
    if chained:
        for k in ("__cause__", "__context__"):
            c = getattr(e, k, None)
            if c is not None:
                out.append((k, c))
    return out


def is_instance_record(x):
    t = type(x)
    if t.__name__ in INSTANCE_CLASSES and t.__module__.startswith("bibtexparser"):
        return True
    # harness-defined probe subclasses of the implementation's block classes
    return any(b.__name__ in INSTANCE_CLASSES and b.__module__.startswith("bibtexparser") for b in t.__mro__[1:]) \
        and getattr(t, "_verif_probe_class", False)


def children(x):
    """Ordered list of (edge label, child) of a non-atom object (or of an exception object: what it holds)."""
    if isinstance(x, BaseException):
        return exc_children(x)
    if isinstance(x, (list, tuple)) and type(x) in (list, tuple):
        return list(enumerate(x))
    if type(x) is dict or type(x).__name__ == "OrderedDict":
        out = []
        for k, v in x.items():
            if not is_atom(k) and not (type(k) is tuple and all(is_atom(y) for y in k)):
                raise UnknownObject("dict key of type %s" % type(k).__name__)
            out.append((k, v))
        return out
    if type(x) in (set, frozenset):
        for e in x:
            if not is_atom(e):
                raise UnknownObject("set element of type %s" % type(e).__name__)
        return [(i, e) for i, e in enumerate(sorted(x, key=repr))]
    if is_instance_record(x):
        slots = [sl for c in type(x).__mro__ for sl in getattr(c, "__slots__", ()) if sl not in ("__dict__", "__weakref__")]
        if slots or not hasattr(x, "__dict__"):
            raise UnknownObject("instance of %s with slots %r / without __dict__" % (type(x).__name__, slots))
        return role_items(x)
    raise UnknownObject("object of type %s.%s" % (type(x).__module__, type(x).__name__))


def is_mutable_node(x):
    return not is_atom(x) and type(x) is not tuple and type(x) is not frozenset


def reachable(roots):
    """dict id -> object for every MUTABLE object reachable from roots (atoms are not entered; tuples and exception
    objects - incl. their __cause__ / __context__ chain - are passed through, never counted)."""
    seen, out, stack = set(), {}, list(roots)
    while stack:
        x = stack.pop()
        if is_leaf(x) or id(x) in seen:
            continue
        seen.add(id(x))
        if is_mutable_node(x):
            out[id(x)] = x
        for _, c in (exc_children(x, chained=True) if is_exc(x) else children(x)):
            stack.append(c)
    return out


def kind_of(x):
    """Coarse kind of a mutable object, for the aliasing diagnostics / tags."""
    n = type(x).__name__
    if n == "Library":
        return "library"
    if n == "Field":
        return "field"
    if n == "NameParts":
        return "value"
    if n in ("list", "dict", "set"):
        return n
    return "block"


def exc_repr(e):
    return (type(e).__name__, str(e))


def struct_diff(a, b, path="", memo=None):
    """None if a and b are structurally equal (same classes, same attribute / element order, same atoms, and the SAME
    sharing pattern: the correspondence a-object <-> b-object is a bijection); else a string saying where they differ."""
    if memo is None:
        memo = ({}, {})
    fw, bw = memo
    if is_leaf(a) or is_leaf(b):
        if type(a) is not type(b) or a != b:
            return "%s: %r vs %r" % (path, a, b)
        return None
    if type(a) is not type(b):
        return "%s: class %s vs %s" % (path, type(a).__name__, type(b).__name__)
    if is_exc(a):
        # the exception objects themselves may be one shared object or two; what they say and hold must be equal
        if exc_repr(a) != exc_repr(b):
            return "%s: exception %r vs %r" % (path, exc_repr(a), exc_repr(b))
        if a is b and id(a) not in fw and id(b) not in bw:
            fw[id(a)] = bw[id(a)] = id(a)
            return None
    if id(a) in fw or id(b) in bw:
        if fw.get(id(a)) != id(b) or bw.get(id(b)) != id(a):
            return "%s: sharing pattern differs" % path
        return None
    fw[id(a)] = id(b)
    bw[id(b)] = id(a)
    ca, cb = children(a), children(b)
    if len(ca) != len(cb):
        return "%s: %d vs %d children" % (path, len(ca), len(cb))
    for (ka, va), (kb, vb) in zip(ca, cb):
        if type(ka) is not type(kb) or ka != kb:
            return "%s: key %r vs %r" % (path, ka, kb)
        d = struct_diff(va, vb, "%s/%s" % (path, ka), memo)
        if d:
            return d
    return None


def clone(x, memo=None):
    """The harness's own deep copy (the reference 'prior deep copy' of the property): atoms are shared, every other
    object is rebuilt with the same class / order / sharing pattern.  An exception object that holds nothing but atoms is
    shared (it is an atom); one that holds anything else (itself or along its __cause__ / __context__ chain) is rebuilt
    around clones of what it holds, so that the
    reference copy is disjoint from the original and records the prior state of everything reachable through the error.
    Independent of copy.deepcopy, which cannot copy every library the parser produces (see the InvalidNameError finding)."""
    if memo is None:
        memo = {}
    if is_leaf(x):
        return x
    if id(x) in memo:
        return memo[id(x)][1]
    t = type(x)
    if is_exc(x):
        if not reachable([tuple(c for _, c in exc_children(x, chained=True))]):
            memo[id(x)] = (x, x)
            return x
        y = BaseException.__new__(t)
        memo[id(x)] = (x, y)
        y.args = clone(x.args, memo)
        held = dict(exc_children(x)[1:])          # opaque immutable values replaced, harness notes left out
        for k, v in x.__dict__.items():
            y.__dict__[k] = clone(v, memo) if k in held and held[k] is v else v
        if x.__cause__ is not None:
            y.__cause__ = clone(x.__cause__, memo)
        if x.__context__ is not None:
            y.__context__ = clone(x.__context__, memo)
        try:
            same = exc_repr(y) == exc_repr(x)
        except Exception:  # noqa: BLE001
            same = False
        if not same:
            raise UnknownObject("exception of class %s cannot be rebuilt from args and __dict__" % t.__name__)
        return y
    if t is list:
        y = []
        memo[id(x)] = (x, y)
        for c in x:
            y.append(clone(c, memo))
        return y
    if t is tuple:
        y = tuple(clone(c, memo) for c in x)
        memo[id(x)] = (x, y)
        return y
    if t is dict or t.__name__ == "OrderedDict":
        y = t()
        memo[id(x)] = (x, y)
        for k, v in children(x):
            y[k] = clone(v, memo)
        return y
    if t in (set, frozenset):
        children(x)
        y = t(x)
        memo[id(x)] = (x, y)
        return y
    children(x)                 # fails closed on unknown types
    y = t.__new__(t)
    memo[id(x)] = (x, y)
    for k, v in list(x.__dict__.items()):        # the attribute names of the tree under test (children() speaks in roles)
        y.__dict__[k] = clone(v, memo)
    return y


def identity_map(root):
    """Ordered list of (path, id) of every mutable object reachable from root: two calls give the same list iff the
    graph consists of the same objects in the same places."""
    out, seen = [], set()

    def go(x, path):
        if is_leaf(x):
            return
        if id(x) in seen:
            out.append((path, id(x), "again"))
            return
        seen.add(id(x))
        if is_mutable_node(x):
            out.append((path, id(x), type(x).__name__))
        for k, c in children(x):
            go(c, path + "/" + str(k))
    go(root, "")
    return out


# ------------------------------------------------------------------------------------------ heap snapshots (layer 3)
def h48(s):
    return int.from_bytes(hashlib.sha1(s.encode("utf-8", "surrogatepass")).digest()[:6], "big") + 1000


A_NONE, A_TRUE, A_FALSE, A_EXC = 1, 2, 3, 4


def atom_code(x):
    """Atoms -> integers (strings / ints hashed to 48 bits; every exception object is ONE atom: excluded by the property)."""
    if x is None:
        return A_NONE
    if x is True:
        return A_TRUE
    if x is False:
        return A_FALSE
    if isinstance(x, BaseException):
        return A_EXC
    if isinstance(x, str):
        return h48("s" + x)
    if isinstance(x, int):
        return h48("i%d" % x)
    if isinstance(x, float):
        return h48("f%r" % x)
    if isinstance(x, bytes):
        return h48("b%r" % x)
    if isinstance(x, type):
        return h48("t" + x.__name__)
    if type(x) is tuple and all(is_atom(y) or type(y) is tuple for y in x):
        return h48("T" + ",".join(str(atom_code(y)) for y in x))
    raise UnknownObject("atom of type %s" % type(x).__name__)


# class codes (small integers; the model dispatches on them)
CLASSES = ["list", "dict", "Library", "Entry", "String", "Preamble", "ExplicitComment", "ImplicitComment", "Field",
           "ParsingFailedBlock", "MiddlewareErrorBlock", "DuplicateBlockKeyBlock", "DuplicateFieldKeyBlock", "NameParts",
           "BibtexFormat", "set", "tuple"]
CLS = {n: i for i, n in enumerate(CLASSES)}
# attribute codes
ATTRS = ["_blocks", "_entries_by_key", "_strings_by_key", "_start_line_in_file", "_raw", "_parser_metadata", "_key",
         "_value", "_comment", "_start_line", "_entry_type", "_fields", "_error", "_ignore_error_block", "_previous_block",
         "_duplicate_keys", "first", "von", "last", "jr", "_indent", "_align_field_values", "_block_separator",
         "_trailing_comma", "_parsing_failed_comment", "_probe_extra"]
ATTR = {n: i + 1 for i, n in enumerate(ATTRS)}



# ---------------------------------------------------------------------------------------------------------------------------------
# Attribute ROLES.  The heap model names the attributes of the library's classes as the pinned tree does and lists them in the
# order in which the pinned constructors assign them.  A rewrite may rename a private attribute or assign in another order
# without changing anything a caller can observe; so the snapshot does not use the names found in __dict__ but the ROLE each
# attribute plays, discovered on the tree under test: a probe object of the class is built through its public constructor /
# setters with recognisable values and its __dict__ is searched for them.  Attributes whose role cannot be established keep
# their own name (and are then unknown to the encoder, which fails closed as before).
PINNED_ORDER = {
    "Field": ["_start_line", "_key", "_value"],
    "Entry": ["_start_line_in_file", "_raw", "_parser_metadata", "_entry_type", "_key", "_fields"],
    "String": ["_start_line_in_file", "_raw", "_parser_metadata", "_key", "_value"],
    "Preamble": ["_start_line_in_file", "_raw", "_parser_metadata", "_value"],
    "ExplicitComment": ["_start_line_in_file", "_raw", "_parser_metadata", "_comment"],
    "ImplicitComment": ["_start_line_in_file", "_raw", "_parser_metadata", "_comment"],
    "ParsingFailedBlock": ["_start_line_in_file", "_raw", "_parser_metadata", "_error", "_ignore_error_block"],
    "MiddlewareErrorBlock": ["_start_line_in_file", "_raw", "_parser_metadata", "_error", "_ignore_error_block"],
    "DuplicateBlockKeyBlock": ["_start_line_in_file", "_raw", "_parser_metadata", "_error", "_ignore_error_block", "_key",
                               "_previous_block"],
    "DuplicateFieldKeyBlock": ["_start_line_in_file", "_raw", "_parser_metadata", "_error", "_ignore_error_block",
                               "_duplicate_keys"],
    "Library": ["_blocks", "_entries_by_key", "_strings_by_key"],
    "BibtexFormat": ["_indent", "_align_field_values", "_block_separator", "_trailing_comma", "_parsing_failed_comment"],
    "NameParts": ["first", "von", "last", "jr"],
}
_ROLES = {}


def _probe(name):
    """(probe object, {role: predicate on an attribute value})"""
    import bibtexparser.model as m

    def tag(r):
        return "\x00role:" + r

    def is_(v):
        return lambda x: x is v

    def int_(n):
        return lambda x: type(x) is int and x == n
    sl, raw = 987001, tag("raw")
    base = {"_start_line_in_file": int_(sl), "_raw": is_(raw)}

    def with_md(o, roles):
        roles = dict(base, **roles)
        roles["_parser_metadata"] = is_(o.parser_metadata)
        return o, roles
    if name == "Field":
        k, v = tag("key"), tag("value")
        return m.Field(k, v, 987002), {"_key": is_(k), "_value": is_(v), "_start_line": int_(987002)}
    if name == "Entry":
        t, k, fl = tag("type"), tag("key"), []
        return with_md(m.Entry(t, k, fl, sl, raw), {"_entry_type": is_(t), "_key": is_(k), "_fields": is_(fl)})
    if name == "String":
        k, v = tag("key"), tag("value")
        return with_md(m.String(k, v, sl, raw), {"_key": is_(k), "_value": is_(v)})
    if name == "Preamble":
        v = tag("value")
        return with_md(m.Preamble(v, sl, raw), {"_value": is_(v)})
    if name in ("ExplicitComment", "ImplicitComment"):
        c = tag("comment")
        return with_md(getattr(m, name)(c, sl, raw), {"_comment": is_(c)})
    inner = m.Preamble("v", sl, raw)
    err = ValueError("probe")
    if name == "ParsingFailedBlock":
        return with_md(m.ParsingFailedBlock(err, sl, raw, inner), {"_error": is_(err), "_ignore_error_block": is_(inner)})
    if name == "MiddlewareErrorBlock":
        return with_md(m.MiddlewareErrorBlock(inner, err), {"_error": is_(err), "_ignore_error_block": is_(inner)})
    if name == "DuplicateBlockKeyBlock":
        k, prev = tag("key"), m.Preamble("w")
        o = m.DuplicateBlockKeyBlock(k, prev, inner, sl, raw)
        return with_md(o, {"_error": lambda x: isinstance(x, BaseException), "_ignore_error_block": is_(inner), "_key": is_(k),
                           "_previous_block": is_(prev)})
    if name == "DuplicateFieldKeyBlock":
        dk, e = {tag("dk")}, m.Entry("t", "k", [], sl, raw)
        o = m.DuplicateFieldKeyBlock(dk, e)
        return with_md(o, {"_error": lambda x: isinstance(x, BaseException), "_ignore_error_block": is_(e), "_duplicate_keys": is_(dk)})
    if name == "Library":
        from bibtexparser.library import Library
        e, st = m.Entry("t", tag("ek"), []), m.String(tag("sk"), "v")
        o = Library([e, st])
        return o, {"_blocks": lambda x: type(x) is list and len(x) == 2 and x[0] is e,
                   "_entries_by_key": lambda x: isinstance(x, dict) and list(x) == [tag("ek")],
                   "_strings_by_key": lambda x: isinstance(x, dict) and list(x) == [tag("sk")]}
    if name == "BibtexFormat":
        from bibtexparser.writer import BibtexFormat
        o = BibtexFormat()
        i, sep, pfc = tag("indent"), tag("sep"), tag("pfc")
        o.indent, o.value_column, o.block_separator, o.trailing_comma, o.parsing_failed_comment = i, 98, sep, True, pfc
        return o, {"_indent": is_(i), "_align_field_values": int_(98), "_block_separator": is_(sep), "_trailing_comma": lambda x: x is True,
                   "_parsing_failed_comment": is_(pfc)}
    return None, None


def roles_of(name):
    """{attribute name in the tree under test: role (= the pinned tree's attribute name)} for one of the library's classes"""
    if name not in _ROLES:
        found = None
        try:
            o, want = _probe(name)
            if o is not None and not getattr(type(o), "__slots__", None):
                found = {}
                for k, v in vars(o).items():
                    hits = [r for r, pred in want.items() if pred(v)]
                    if len(hits) != 1 or hits[0] in found.values():
                        found = None
                        break
                    found[k] = hits[0]
                if found is not None and set(found.values()) != set(want):
                    found = None
        except Exception:  # noqa: BLE001 - any trouble: the names are taken as they are
            found = None
        _ROLES[name] = found
    return _ROLES[name]


def role_items(x):
    """the instance attributes of x as (role, value) pairs in the pinned order of the roles; what has no role comes last"""
    t = type(x)
    if getattr(t, "_verif_probe_class", False):
        t = ([b for b in t.__mro__[1:] if b.__module__.startswith("bibtexparser")] or [t])[0]
    name = t.__name__
    items = list(x.__dict__.items())
    roles = roles_of(name) if name in PINNED_ORDER else None
    if roles is None:
        return items
    named = [(roles.get(k, k), v) for k, v in items]
    order = {r: i for i, r in enumerate(PINNED_ORDER[name])}
    known = sorted([kv for kv in named if kv[0] in order], key=lambda kv: order[kv[0]])
    return known + [kv for kv in named if kv[0] not in order]


def class_code(x):
    t = type(x)
    if getattr(t, "_verif_probe_class", False):
        t = [b for b in t.__mro__[1:] if b.__module__.startswith("bibtexparser")][0]
    n = t.__name__
    if n == "OrderedDict":
        n = "dict"
    if n not in CLS:
        raise UnknownObject("class %s" % n)
    return CLS[n]


def is_tuple_of_atoms(x):
    return type(x) is tuple and all(is_atom(y) or is_tuple_of_atoms(y) for y in x)


class Numbering:
    """ids 1..n in traversal order (DFS preorder, children in order) from a list of roots."""

    def __init__(self):
        self.num = {}      # id(obj) -> n
        self.objs = []     # index n-1 -> obj   (keeps the objects alive, so ids stay valid)

    def visit(self, x):
        if is_atom(x) or is_tuple_of_atoms(x) or id(x) in self.num:
            return
        self.num[id(x)] = len(self.objs) + 1
        self.objs.append(x)
        for _, c in children(x):
            self.visit(c)

    def pv(self, x):
        if is_atom(x) or is_tuple_of_atoms(x):
            return [0, atom_code(x)]
        return [1, self.num[id(x)]]

    def enc_obj(self, x):
        """[0, pv...] list | [1, [k, pv]...] dict | [2, cls, [attr, pv]...] instance (sets / tuples: instance with index keys)."""
        if type(x) is list:
            return [0] + [self.pv(c) for c in x]
        if type(x) is dict or type(x).__name__ == "OrderedDict":
            return [1] + [[atom_code(k), self.pv(v)] for k, v in x.items()]
        if type(x) in (set, frozenset, tuple):
            return [2, CLS["set" if type(x) is not tuple else "tuple"]] + [[i, self.pv(c)] for i, c in children(x)]
        out = [2, class_code(x)]
        for k, v in role_items(x):
            if k not in ATTR:
                raise UnknownObject("attribute %s of %s" % (k, type(x).__name__))
            out.append([ATTR[k], self.pv(v)])
        return out


def snapshot(roots):
    """Initial heap: numbering + encoded heap [[id, obj]...] in id order."""
    nb = Numbering()
    for r in roots:
        nb.visit(r)
    heap = [[i + 1, nb.enc_obj(x)] for i, x in enumerate(nb.objs)]
    return nb, heap


def final_view(nb, n_in, out_roots):
    """Canonical encoding of the state after the call: traversal from the input objects 1..n_in (in order) and then the
    output roots; an object not among the inputs gets the next number n_in+1, n_in+2, ... when first met.  Input ids
    are fixed, so the encoding shows exactly which input objects the output shares and what every input object now
    contains."""
    for x in list(nb.objs[:n_in]):
        for _, c in children(x):
            nb.visit(c)
    for r in out_roots:
        nb.visit(r)
    heap = [[i + 1, nb.enc_obj(x)] for i, x in enumerate(nb.objs)]
    return heap, [nb.pv(r) for r in out_roots]
