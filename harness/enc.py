"""Encoding of Python objects into the sx wire format (nested lists of ints).

Injective by construction: every composite is a list with a leading class tag and a fixed arity;
anything not understood becomes ("other", <stable small code>) rather than being dropped.
The Coq side (Run/Codec.v) decodes/encodes the same shapes.
"""
import re

_W = re.compile(r"\w")
_flag_cache = {}


def enc_char(c):
    v = _flag_cache.get(c)
    if v is None:
        fl = (int(c.isspace()) | (int(c.isalpha()) << 1) | (int(c.isupper()) << 2) | (int(c.isdigit()) << 3)
              | (int(_W.match(c) is not None) << 4) | (int(c.isdecimal()) << 5) | (int(c.islower()) << 6))
        v = ord(c) * 128 + fl
        _flag_cache[c] = v
    return v


def enc_str(s):
    return [enc_char(c) for c in s]


def dec_str(x):
    return "".join(chr(n >> 7) for n in x)


def enc_opt(f, x):
    return [] if x is None else [f(x)]


def enc_int(n):
    return int(n)


def lower_is_ascii_only(s):
    """True iff CPython's s.lower() equals the model's ASCII-only lowering (DESIGN 2.1)."""
    return s.lower() == "".join(chr(ord(c) + 32) if "A" <= c <= "Z" else c for c in s)


# ---------------------------------------------------------------- values
V_STR, V_INT, V_LIST, V_PARTS, V_NONE, V_BOOL, V_OTHER, V_TUPLE, V_DICT = range(9)


def enc_value(v):
    # bool before int: bool is a subclass of int
    if isinstance(v, bool):
        return [V_BOOL, int(v)]
    if isinstance(v, str):
        return [V_STR, enc_str(v)]
    if isinstance(v, int):
        return [V_INT, v]
    if v is None:
        return [V_NONE]
    if isinstance(v, list):
        return [V_LIST, [enc_value(x) for x in v]]
    if isinstance(v, tuple):
        return [V_TUPLE, [enc_value(x) for x in v]]
    if isinstance(v, dict):
        return [V_DICT, [[enc_str(k) if isinstance(k, str) else enc_str(repr(k)), enc_value(x)] for k, x in v.items()]]
    cn = type(v).__name__
    if cn == "NameParts":
        return [V_PARTS, [enc_str(x) for x in v.first], [enc_str(x) for x in v.von], [enc_str(x) for x in v.last],
                [enc_str(x) for x in v.jr]]
    if isinstance(v, (set, frozenset)):
        return [V_OTHER, 3]
    if cn == "Field":
        return [V_OTHER, 1]
    return [V_OTHER, 2]


def enc_field(f):
    return [enc_str(f.key), enc_value(f.value), enc_opt(enc_int, f.start_line)]


# ---------------------------------------------------------------- errors / blocks
ABORT_REASONS = [
    ("Unexpectedly reached end of file.", 0),
    ("Unexpected block start: ", 1),            # refined below by the 'looking for' text
    ("Expected a `=` after entry key", 5),
    ("Expected either a `,` or `}` after a closed entry field value", 6),
    ("Expected comma after entry key", 7),
    ("Expected equals sign after field key", 8),
]


def abort_code(reason):
    if reason.startswith("Unexpected block start: "):
        if "closing bracket" in reason:
            return 1
        if 'closing `"`' in reason:
            return 2
        if "closing `}`" in reason:
            return 3
        if "closing `,` or `}`" in reason:
            return 4
        return 9
    for p, c in ABORT_REASONS:
        if reason.startswith(p):
            return c
    return 9


E_ABORT, E_DUPKEY, E_DUPFIELD, E_INVALIDNAME, E_PARTIAL, E_OTHER = range(6)


def enc_err(e):
    cn = type(e).__name__
    if cn == "BlockAbortedException":
        # the wording of abort reasons is not part of any property: not compared (the model's reason codes are
        # erased by Run/Codec.v: enc_err as well); abort_code() is kept for summaries only
        return [E_ABORT, 0]
    if cn == "InvalidNameError":
        return [E_INVALIDNAME]
    if cn == "PartialMiddlewareException":
        return [E_PARTIAL]
    if type(e) is Exception:
        msg = str(e)
        if msg.startswith("Duplicate entry key"):
            return [E_DUPKEY]
        if msg.startswith("Duplicate field keys"):
            return [E_DUPFIELD]
    return [E_OTHER, 0]


def enc_meta_value(key, v, abstract_meta=()):
    if key in abstract_meta:
        return [V_BOOL, 1]
    return enc_value(v)


def enc_hdr(b, abstract_meta=()):
    md = b.parser_metadata
    return [enc_opt(enc_int, b.start_line), enc_opt(enc_str, b.raw),
            [[enc_str(k), enc_meta_value(k, v, abstract_meta)] for k, v in md.items()]]


B_ENTRY, B_STRING, B_PREAMBLE, B_EXPL, B_IMPL, B_FAILED, B_MWERR, B_DUPKEY, B_DUPFIELD = range(9)


def enc_block(b, abstract_meta=(), abstract_prev=False):
    """Structural encoding of a block (exact class, not isinstance).

    abstract_prev: encode DuplicateBlockKeyBlock.previous_block only by its key (an ImplicitComment stub):
    used where the aliasing of that reference with the live block is not modelled (see Model/LibAdd.v)."""
    cn = type(b).__name__
    h = enc_hdr(b, abstract_meta)
    if cn == "Entry":
        return [B_ENTRY, h, enc_str(b.entry_type), enc_str(b.key), [enc_field(f) for f in b.fields]]
    if cn == "String":
        return [B_STRING, h, enc_str(b.key), enc_value(b.value)]
    if cn == "Preamble":
        return [B_PREAMBLE, h, enc_str(b.value)]
    if cn == "ExplicitComment":
        return [B_EXPL, h, enc_str(b.comment)]
    if cn == "ImplicitComment":
        return [B_IMPL, h, enc_str(b.comment)]
    if cn == "ParsingFailedBlock":
        if b.ignore_error_block is not None:
            return [99, h]
        return [B_FAILED, h, enc_err(b.error)]
    if cn == "MiddlewareErrorBlock":
        return [B_MWERR, h, enc_err(b.error), enc_block(b.ignore_error_block, abstract_meta, abstract_prev)]
    if cn == "DuplicateBlockKeyBlock":
        prev = ([B_IMPL, [[], [], []], enc_str(str(getattr(b.previous_block, "key", "")))] if abstract_prev
                else enc_block(b.previous_block, abstract_meta, abstract_prev))
        return [B_DUPKEY, h, enc_str(b.key), prev, enc_block(b.ignore_error_block, abstract_meta, abstract_prev)]
    if cn == "DuplicateFieldKeyBlock":
        return [B_DUPFIELD, h, [enc_str(k) for k in sorted(b.duplicate_keys)],
                enc_block(b.ignore_error_block, abstract_meta, abstract_prev)]
    return [99, h]


# ---------------------------------------------------------------- text form
def dumps(x):
    out = []
    _dump(x, out)
    return "".join(out)


def _dump(x, out):
    if isinstance(x, list):
        out.append("(")
        first = True
        for y in x:
            if not first:
                out.append(" ")
            first = False
            _dump(y, out)
        out.append(")")
    else:
        out.append(str(int(x)))


def loads(s):
    stack = [[]]
    tok = ""
    for c in s:
        if c == "(":
            stack.append([])
        elif c == ")":
            if tok:
                stack[-1].append(int(tok))
                tok = ""
            x = stack.pop()
            stack[-1].append(x)
        elif c in " \n\t":
            if tok:
                stack[-1].append(int(tok))
                tok = ""
        else:
            tok += c
    if tok:
        stack[-1].append(int(tok))
    assert len(stack) == 1 and len(stack[0]) == 1, s[:100]
    return stack[0][0]
