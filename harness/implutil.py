"""Helpers shared by the per-property implementation runners."""


class CaseTimeout(BaseException):
    pass


EXC_CODES = {"ValueError": 1, "TypeError": 2, "KeyError": 3, "AttributeError": 4, "RecursionError": 5,
             "IndexError": 7, "AssertionError": 8, "MemoryError": 9, "InvalidNameError": 10, "RuntimeError": 11,
             "UnicodeDecodeError": 12, "StopIteration": 13}
EXC_OTHER = 6
EXC_TIMEOUT = 99


TIMED_OUT = [False]     # set when a CaseTimeout was caught anywhere in this process (impl_runner.py stops the child then)


def guarded(fn):
    """Run fn(); return ('ok', value) or ('exc', code, classname)."""
    try:
        return ("ok", fn())
    except CaseTimeout:
        TIMED_OUT[0] = True
        return ("exc", EXC_TIMEOUT, "Timeout")
    except Exception as e:  # noqa: BLE001 - classifying every exception is the point
        return ("exc", EXC_CODES.get(type(e).__name__, EXC_OTHER), type(e).__name__)


def r_ok(x):
    return [0, x]


def r_exc(code):
    return [1, code]
