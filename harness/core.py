"""Check driver: build, proof status, correspondence, oracle, violation report, evidence.

One run of `./check Cxx --tier T` (see DESIGN.md 1.2):
  1. rebuild: regenerate Gen/Constants.v from the tree under test, full `make`, extraction, driver
  2. proof status: re-run coqc on Properties/Cxx.v, collect `Print Assumptions` per theorem, hygiene grep
  3. generate cases (corpus first, then seeded streams)
  4. implementation child processes (PYTHONPATH=<repo>) -> per case: sx input, sx output, oracle verdict
  5. model: extracted binary on the same sx inputs; a seeded sample re-evaluated by vm_compute in coqc
  6. diff, shrink, report, evidence
"""
import hashlib
import importlib
import json
import os
import random
import re
import shutil
import subprocess
import sys
import tempfile
import time

HERE = os.path.dirname(os.path.abspath(__file__))
ROOT = os.path.dirname(HERE)
REPO = os.environ.get("VERIF_REPO", "/repo")
PY = os.environ.get("VERIF_PYTHON", "/venv/bin/python")
COQDIR = os.path.join(ROOT, "coq")
MODEL_BIN = os.path.join(ROOT, "ocaml", "model_run")
JOBS = int(os.environ.get("VERIF_JOBS", "16"))

sys.path.insert(0, HERE)
import enc  # noqa: E402

HYGIENE_RE = re.compile(r"\b(Admitted|admit|Axiom|Axioms|Parameter|Parameters|Conjecture|Conjectures|Abort All|"
                        r"Unset Guard Checking|Unset Positivity Checking|Unset Universe Checking|bypass_check|"
                        r"Admit Obligations|give_up)\b|-type-in-type|-impredicative-set")
ALLOWED_AXIOMS = set()   # the development is axiom-free; any axiom reported is a failure


def log(*a):
    print(*a, flush=True)


# ------------------------------------------------------------------ build / proof status
def build():
    t0 = time.time()
    p = subprocess.run([os.path.join(ROOT, "build.sh")], stdout=subprocess.PIPE, stderr=subprocess.STDOUT, text=True,
                       env=dict(os.environ, VERIF_REPO=REPO))
    return p.returncode == 0, p.stdout[-4000:], time.time() - t0


def strip_comments(src):
    out, depth, i = [], 0, 0
    while i < len(src):
        if src.startswith("(*", i):
            depth += 1
            i += 2
        elif src.startswith("*)", i) and depth:
            depth -= 1
            i += 2
        else:
            if depth == 0:
                out.append(src[i])
            i += 1
    return "".join(out)


def hygiene():
    bad = []
    for d, _, fs in os.walk(os.path.join(COQDIR, "theories")):
        for f in fs:
            if not f.endswith(".v"):
                continue
            p = os.path.join(d, f)
            src = strip_comments(open(p).read())
            # Section-local Variable/Hypothesis are allowed; top-level ones are not
            depth = 0
            for ln in src.splitlines():
                s = ln.strip()
                if re.match(r"Section\b", s):
                    depth += 1
                elif re.match(r"End\b", s) and depth:
                    depth -= 1
                if HYGIENE_RE.search(ln):
                    bad.append("%s: %s" % (os.path.relpath(p, COQDIR), s[:80]))
                if depth == 0 and re.match(r"(Variables?|Hypothes[ie]s|Context)\b", s):
                    bad.append("%s: top-level %s" % (os.path.relpath(p, COQDIR), s[:60]))
    return bad


def proof_status(prop):
    """Re-run coqc on Properties/<prop>.v; map each theorem to its Print Assumptions result."""
    path = os.path.join(COQDIR, "theories", "Properties", prop + ".v")
    res = {"file": os.path.relpath(path, ROOT), "theorems": [], "ok": False, "detail": ""}
    if not os.path.exists(path):
        res["detail"] = "missing " + path
        return res
    src = strip_comments(open(path).read())
    theorems = re.findall(r"^\s*Theorem\s+(\w+)", src, re.M)
    printed = re.findall(r"Print Assumptions\s+(\w+)", src)
    # only statements closed by `exact` and printed are counted
    p = subprocess.run(["timeout", "600", "coqc", "-Q", "theories", "BP", "-w", "-all",
                        os.path.join("theories", "Properties", prop + ".v")],
                       cwd=COQDIR, stdout=subprocess.PIPE, stderr=subprocess.STDOUT, text=True)
    out = p.stdout
    if p.returncode != 0:
        res["detail"] = "coqc failed: " + out[-1500:]
        return res
    blocks = re.split(r"(?=Closed under the global context|Axioms:)", out)
    verdicts = []
    for b in blocks:
        if b.startswith("Closed under the global context"):
            verdicts.append([])
        elif b.startswith("Axioms:"):
            axs = re.findall(r"^(\S+)\s*:", b[len("Axioms:"):], re.M)
            verdicts.append(axs)
    ok = True
    if sorted(theorems) != sorted(printed) or len(verdicts) != len(printed):
        ok = False
        res["detail"] = "theorems %r / printed %r / verdicts %d" % (theorems, printed, len(verdicts))
    for name, axs in zip(printed, verdicts):
        extra = [a for a in axs if a not in ALLOWED_AXIOMS]
        res["theorems"].append({"name": name, "axioms": axs})
        if extra:
            ok = False
            res["detail"] += " %s depends on %s;" % (name, extra)
    res["ok"] = ok and len(theorems) > 0
    return res


def coqchk(prop):
    p = subprocess.run(["timeout", "1800", "coqchk", "-silent", "-o", "-Q", "theories", "BP", "BP.Properties." + prop],
                       cwd=COQDIR, stdout=subprocess.PIPE, stderr=subprocess.STDOUT, text=True)
    tail = p.stdout[-1500:]
    return p.returncode == 0, tail


# ------------------------------------------------------------------ model execution
def run_model(lines):
    """lines: list of sx text lines; returns list of output lines."""
    if not lines:
        return []
    with tempfile.NamedTemporaryFile("w", suffix=".sx", delete=False) as f:
        f.write("\n".join(lines) + "\n")
        name = f.name
    try:
        with open(name) as fin:
            p = subprocess.run(["bash", "-c", "ulimit -s unlimited 2>/dev/null; exec %s" % MODEL_BIN], stdin=fin,
                               stdout=subprocess.PIPE, stderr=subprocess.PIPE, text=True)
    finally:
        os.unlink(name)
    out = p.stdout.split("\n")
    if out and out[-1] == "":
        out.pop()
    if len(out) != len(lines):
        raise RuntimeError("model_run produced %d lines for %d inputs (rc=%s, stderr=%s)" %
                           (len(out), len(lines), p.returncode, p.stderr[-300:]))
    return out


def run_model_parallel(lines, jobs=JOBS):
    if len(lines) < 2000 or jobs <= 1:
        return run_model(lines)
    from concurrent.futures import ThreadPoolExecutor
    n = min(jobs, (len(lines) + 999) // 1000)
    chunks = [lines[i::n] for i in range(n)]
    with ThreadPoolExecutor(n) as ex:
        outs = list(ex.map(run_model, chunks))
    res = [None] * len(lines)
    for k, o in enumerate(outs):
        res[k::n] = o
    return res


def sx_to_coq(x):
    if isinstance(x, list):
        return "L [" + "; ".join(sx_to_coq(y) for y in x) + "]"
    return "A (%d)" % x


def vm_crosscheck(pairs, workdir):
    """pairs: list of (sx_in_text, sx_out_text) produced by the extracted binary.  Re-evaluate run_case on the
    same inputs inside Coq (vm_compute) and compare there.  Returns (ok, n, detail)."""
    if not pairs:
        return True, 0, ""
    # keep the literal small: skip very large cases
    pairs = [p for p in pairs if len(p[0]) + len(p[1]) < 20000][:400]
    src = ["From Coq Require Import List ZArith.", "From BP Require Import Base.Sx Run.Dispatch.", "Import ListNotations.",
           "Local Open Scope Z_scope.", "Definition ins : list sx := ["]
    src.append(";\n".join(sx_to_coq(enc.loads(a)) for a, _ in pairs))
    src.append("].\nDefinition outs : list sx := [")
    src.append(";\n".join(sx_to_coq(enc.loads(b)) for _, b in pairs))
    src.append("].\nDefinition bad := filter (fun p => negb (sx_eqb (run_case (fst p)) (snd p))) (combine ins outs).")
    src.append("Eval vm_compute in (length ins, length outs, length bad).")
    path = os.path.join(workdir, "vmcases.v")
    with open(path, "w") as f:
        f.write("\n".join(src) + "\n")
    p = subprocess.run(["bash", "-c", "ulimit -s unlimited 2>/dev/null; exec timeout 900 coqc -Q %s BP -w -all %s" %
                        (os.path.join(COQDIR, "theories"), path)], cwd=workdir,
                       stdout=subprocess.PIPE, stderr=subprocess.STDOUT, text=True)
    m = re.search(r"=\s*\((\d+)%nat,\s*(\d+)%nat,\s*(\d+)%nat\)", p.stdout.replace("\n", " "))
    if not m:
        m = re.search(r"=\s*\((\d+),\s*(\d+),\s*(\d+)\)", p.stdout.replace("\n", " "))
    if p.returncode != 0 or not m:
        return False, len(pairs), "coqc vm cross-check failed: " + p.stdout[-800:]
    a, b, c = map(int, m.groups())
    ok = (a == len(pairs) and b == len(pairs) and c == 0)
    return ok, len(pairs), "" if ok else "vm_compute disagrees with the extracted binary on %d of %d cases" % (c, a)


# ------------------------------------------------------------------ implementation side
def run_impl(prop, cases, workdir, jobs=JOBS, timeout_s=None, cov_out=None, _retry=False):
    """Run the implementation on the cases in child processes. Returns list of records (same order)."""
    n = max(1, min(jobs, (len(cases) + 199) // 200 if not _retry else len(cases)))
    shards = [cases[i::n] for i in range(n)]
    procs = []
    for k, sh in enumerate(shards):
        inp = os.path.join(workdir, "cases_%d.jsonl" % k)
        outp = os.path.join(workdir, "recs_%d.jsonl" % k)
        with open(inp, "w") as f:
            for c in sh:
                f.write(json.dumps(c) + "\n")
        env = dict(os.environ, PYTHONPATH=REPO, PYTHONHASHSEED="0", PYTHONDONTWRITEBYTECODE="1", VERIF_REPO=REPO)
        env.pop("BIBTEXPARSER_VERIF", None)
        env["BIBTEXPARSER_VERIF"] = "1"
        env.pop("VERIF_COV_OUT", None)
        env.pop("VERIF_TIMEOUT_FACTOR", None)
        if _retry:
            env["VERIF_TIMEOUT_FACTOR"] = "6"
            env["VERIF_SECOND_PASS"] = "0"
        if cov_out and (k == 0 or os.environ.get("VERIF_COV_ALL", "1") != "0"):
            # statement coverage of /repo is measured on every shard and merged (VERIF_COV_ALL=0: first shard only)
            env["VERIF_COV_OUT"] = cov_out if k == 0 else "%s.%d" % (cov_out, k)
        p = subprocess.Popen([PY, "-B", os.path.join(HERE, "impl_runner.py"), prop, inp, outp], cwd=workdir, env=env,
                             stdout=subprocess.PIPE, stderr=subprocess.STDOUT, text=True)
        procs.append((p, outp, sh))
    # watchdog: a child whose heartbeat file stands still for several per-case limits has wedged itself (the alarm can interrupt
    # it while a lock is held); it is stopped, what it did not evaluate is evaluated again in fresh children like a timeout
    try:
        import importlib
        limit = float(os.environ.get("VERIF_CASE_TIMEOUT_S") or getattr(importlib.import_module("props." + prop.lower()), "CASE_TIMEOUT_S", 20))
    except Exception:  # noqa: BLE001
        limit = 20.0
    stall = 3 * limit * (6 if _retry else 1) + 90
    stalled = set()
    alive = {id(p): p for p, _, _ in procs}
    last = {id(p): time.time() for p, _, _ in procs}
    while alive:
        time.sleep(1.0)
        now = time.time()
        for p, outp, _ in procs:
            if id(p) not in alive:
                continue
            if p.poll() is not None:
                del alive[id(p)]
                continue
            try:
                last[id(p)] = max(last[id(p)], os.path.getmtime(outp + ".hb"))
            except OSError:
                pass
            if now - last[id(p)] > stall:
                p.kill()
                stalled.add(id(p))
                del alive[id(p)]
    recs_by_shard = []
    for p, outp, sh in procs:
        out, _ = p.communicate()
        recs = []
        if os.path.exists(outp):
            with open(outp) as f:
                recs = [json.loads(l) for l in f if l.strip()]
            second = {r["id"]: r["second_pass"] for r in recs if "second_pass" in r}
            recs = [r for r in recs if "second_pass" not in r]
            for r in recs:
                if r["id"] in second:
                    r["second_pass"] = second[r["id"]]
        if id(p) in stalled:
            log("impl: a child stood still for %.0f s and was stopped; the %d case(s) it had not finished are evaluated again" % (stall, len(sh) - len(recs)))
            for c in sh[len(recs):]:
                recs.append({"id": c["id"], "crash": "harness timeout: not evaluated, the child stood still and was stopped"})
        elif p.returncode == 75:
            # the child stopped itself after a per-case timeout (impl_runner.py): the rest of its shard is evaluated below
            for c in sh[len(recs):]:
                recs.append({"id": c["id"], "crash": "harness timeout: not evaluated, the child stopped after an earlier timeout"})
        elif p.returncode != 0 or len(recs) != len(sh):
            # the child died: mark the remaining cases as crashed (this is itself a finding for C01-like properties)
            for c in sh[len(recs):]:
                recs.append({"id": c["id"], "crash": "impl child exited rc=%s: %s" % (p.returncode, (out or "")[-400:])})
        recs_by_shard.append(recs)
    res = [None] * len(cases)
    for k, recs in enumerate(recs_by_shard):
        res[k::n] = recs
    if not _retry:
        # A per-case time limit that fires because the MACHINE is busy (other checks running, the coverage tracer, a child whose
        # tracer lock was left held by an earlier timeout) is not a hang of the library.  Every timed-out case is evaluated again
        # in fresh children, without the tracer, with six times the limit; only a case that times out again is reported so.
        late = [i for i, r in enumerate(res) if _timed_out(r)]
        if late:
            sub = os.path.join(workdir, "retry")
            os.makedirs(sub, exist_ok=True)
            again = run_impl(prop, [cases[i] for i in late], sub, jobs=jobs, _retry=True)
            for i, r in zip(late, again):
                r.setdefault("tags", [])
                if isinstance(r.get("tags"), list):
                    r["tags"] = r["tags"] + ["harness:re-evaluated-after-timeout"]
                res[i] = r
            log("impl: %d case(s) hit the per-case time limit and were evaluated again (fresh children, no tracer, 6x the limit): %d still time out"
                % (len(late), sum(1 for r in again if _timed_out(r))))
    return res


def _timed_out(r):
    if r is None:
        return False
    if "timeout" in str(r.get("crash", "")).lower():
        return True
    o = r.get("oracle") or {}
    return "Timeout" in str(o.get("detail", "")) or "Timeout" in str(r.get("summary", ""))


# ------------------------------------------------------------------ the check
class Outcome:
    def __init__(self):
        self.violations = []      # dicts
        self.known = {}           # finding id -> count
        self.notes = []


def case_hash(obj):
    return hashlib.sha1(json.dumps(obj, sort_keys=True).encode()).hexdigest()[:12]


def load_known():
    p = os.path.join(ROOT, "known_findings.json")
    if not os.path.exists(p):
        return {"open": [], "fixed": []}
    return json.load(open(p))


def run_witnesses(ids):
    """Run findings/witnesses.py for the given ids on the tree under test; id -> (HOLDS|FAILS, detail)."""
    if not ids:
        return {}
    env = dict(os.environ, PYTHONPATH=REPO, PYTHONHASHSEED="0", PYTHONDONTWRITEBYTECODE="1")
    p = subprocess.run(["timeout", "300", PY, "-B", os.path.join(ROOT, "findings", "witnesses.py")] + list(ids),
                       cwd=tempfile.gettempdir(), env=env, stdout=subprocess.PIPE, stderr=subprocess.DEVNULL, text=True)
    res = {}
    for ln in p.stdout.splitlines():
        m = re.match(r"(\w+) (HOLDS|FAILS) (.*)", ln)
        if m:
            res[m.group(1)] = (m.group(2), m.group(3)[:300])
    return res


def write_replay(prop, payload):
    d = os.path.join(ROOT, "replay")
    os.makedirs(d, exist_ok=True)
    path = os.path.join(d, "%s-%s.json" % (prop, case_hash(payload)))
    with open(path, "w") as f:
        json.dump(payload, f, indent=1, sort_keys=True)
    return path


def load_corpus(prop):
    d = os.path.join(ROOT, "corpus", prop)
    cases = []
    if os.path.isdir(d):
        for fn in sorted(os.listdir(d)):
            if fn.endswith(".json"):
                obj = json.load(open(os.path.join(d, fn)))
                for k, c in enumerate(obj if isinstance(obj, list) else [obj]):
                    c = dict(c)
                    c["id"] = "corpus/%s#%d" % (fn, k)
                    c.setdefault("stream", "corpus")
                    cases.append(c)
    return cases


def evaluate(prop, mod, cases, workdir, out, vm_sample_rng=None, do_vm=True):
    """Run impl + model on cases; fill outcome; return stats dict."""
    t0 = time.time()
    cov_out = os.path.join(workdir, "coverage.json")
    recs = run_impl(prop, cases, workdir, cov_out=cov_out)
    t_impl = time.time() - t0
    t0 = time.time()
    idx = [i for i, r in enumerate(recs) if r.get("sx_in") is not None]
    model_out = run_model_parallel([recs[i]["sx_in"] for i in idx]) if os.path.exists(MODEL_BIN) else None
    t_model = time.time() - t0
    stats = {"evaluations": len(cases), "compared": 0, "agree": 0, "skipped_oracle_domain": 0, "impl_s": round(t_impl, 2),
             "model_s": round(t_model, 2), "streams": {}, "nontrivial": set(), "oracle_checked": 0, "results": {}}
    disagreements = []
    pairs = []
    mo = {}
    if model_out is not None:
        for i, o in zip(idx, model_out):
            mo[i] = o
    for i, (c, r) in enumerate(zip(cases, recs)):
        st = stats["streams"].setdefault(c.get("stream", "?"), 0)
        stats["streams"][c.get("stream", "?")] = st + 1
        if "crash" in r:
            out.violations.append({"kind": "impl-crash", "case": c, "detail": r["crash"]})
            continue
        for key in r.get("tags", []):
            stats["results"][key] = stats["results"].get(key, 0) + 1
        if r.get("oracle") is not None:
            stats["oracle_checked"] += 1
            if not r["oracle"]["ok"]:
                kid = r["oracle"].get("known")
                if kid:
                    out.known[kid] = out.known.get(kid, 0) + 1
                else:
                    out.violations.append({"kind": "oracle", "case": c, "detail": r["oracle"].get("detail", ""),
                                           "impl_out": r.get("summary")})
        if r.get("second_pass") is not None:
            sp = r["second_pass"]
            stats["second_pass_differs"] = stats.get("second_pass_differs", 0) + 1
            why = ("evaluating this case a second time in the same process (after the other cases of its shard) gave a different "
                   "result: the library carries state between calls; first %s, second %s" % (r.get("summary"), sp.get("summary")))
            spo = sp.get("oracle") or {}
            if spo.get("ok") is False and not spo.get("known"):
                out.violations.append({"kind": "oracle", "case": c, "detail": why + " :: " + spo.get("detail", ""),
                                       "impl_out": sp.get("summary")})
            elif r.get("sx_in") is not None and mo.get(i) not in (None, "(-2)") and not r.get("skip"):
                disagreements.append({"case": c, "model": mo.get(i), "impl": sp.get("sx_out"), "sx_in": r["sx_in"],
                                      "oracle": sp.get("oracle"), "summary": why})
        if r.get("nontrivial"):
            stats["nontrivial"].add(r.get("key") or case_hash(c.get("input")))
        if r.get("sx_in") is None:
            continue
        if model_out is None:
            continue
        m = mo[i]
        if m == "(-2)" or r.get("skip"):
            stats["skipped_oracle_domain"] += 1
            continue
        stats["compared"] += 1
        if m == r["sx_out"]:
            stats["agree"] += 1
            pairs.append((r["sx_in"], m))
        else:
            disagreements.append({"case": c, "model": m, "impl": r["sx_out"], "sx_in": r["sx_in"],
                                  "oracle": r.get("oracle"), "summary": r.get("summary")})
    stats["disagreements"] = disagreements
    if os.path.exists(cov_out):
        try:
            cv = json.load(open(cov_out))
            k = 1
            while os.path.exists("%s.%d" % (cov_out, k)):
                for f, v in json.load(open("%s.%d" % (cov_out, k))).items():
                    if f in cv and len(v) > 2:
                        miss = sorted(set(cv[f][2]) & set(v[2]))
                        cv[f] = [cv[f][0], len(miss), miss]
                k += 1
            stats["code_coverage_first_shard"] = {f: {"statements": v[0], "executed": v[0] - v[1], "not_executed_lines": v[2] if len(v) > 2 else None}
                                                  for f, v in sorted(cv.items())
                                                  if v[0] - v[1] > 0 and not f.endswith("__init__.py")}
        except Exception:
            pass
    # vm_compute cross-check of the extraction on a seeded sample
    if do_vm and pairs and model_out is not None:
        rng = vm_sample_rng or random.Random(0)
        sample = rng.sample(pairs, min(len(pairs), 200))
        ok, n, detail = vm_crosscheck(sample, workdir)
        stats["vm_crosscheck"] = {"n": n, "ok": ok}
        if not ok:
            out.violations.append({"kind": "extraction-mismatch", "case": None, "detail": detail})
    return stats, recs


def shrink_disagreement(prop, mod, d, workdir):
    """Greedy shrinking of a disagreeing case using the property's `shrink` candidates."""
    if not hasattr(mod, "shrink"):
        return d
    cur = d
    budget = 60
    improved = True
    while improved and budget > 0:
        improved = False
        cands = list(mod.shrink(cur["case"]))[:40]
        if not cands:
            break
        for k, c in enumerate(cands):
            c["id"] = "shrink#%d" % k
        recs = run_impl(prop, cands, workdir, jobs=4)
        idx = [i for i, r in enumerate(recs) if r.get("sx_in") is not None]
        mo = run_model([recs[i]["sx_in"] for i in idx])
        budget -= 1
        for i, m in zip(idx, mo):
            r = recs[i]
            if m != "(-2)" and not r.get("skip") and m != r["sx_out"]:
                cur = {"case": cands[i], "model": m, "impl": r["sx_out"], "sx_in": r["sx_in"], "oracle": r.get("oracle"),
                       "summary": r.get("summary")}
                improved = True
                break
    return cur


def main(argv):
    import argparse
    ap = argparse.ArgumentParser()
    ap.add_argument("prop")
    ap.add_argument("--tier", default=os.environ.get("VERIF_TIER", "quick"), choices=["quick", "thorough"])
    ap.add_argument("--seed", type=int, default=int(os.environ.get("VERIF_SEED", "0")))
    ap.add_argument("--replay")
    ap.add_argument("--no-build", action="store_true")
    a = ap.parse_args(argv)
    prop = a.prop
    tier = os.environ.get("VERIF_TIER", a.tier) if a.tier is None else a.tier
    t_start = time.time()
    mod = importlib.import_module("props." + prop.lower())
    out = Outcome()
    workdir = tempfile.mkdtemp(prefix="verif_%s_" % prop)
    try:
        return _run(prop, tier, a, mod, out, workdir, t_start)
    finally:
        shutil.rmtree(workdir, ignore_errors=True)


def _run(prop, tier, a, mod, out, workdir, t_start):
    log("== check %s tier=%s seed=%d repo=%s" % (prop, tier, a.seed, REPO))
    # 1. build
    if a.no_build:
        b_ok, b_log, b_s = True, "", 0.0
    else:
        b_ok, b_log, b_s = build()
    log("build: %s (%.1fs)" % ("ok" if b_ok else "FAILED", b_s))
    obligations = []
    if not b_ok:
        log(b_log[-1500:])
    hyg = hygiene()
    if hyg:
        log("hygiene: " + "; ".join(hyg[:5]))
    ps = proof_status(prop) if b_ok else {"ok": False, "theorems": [], "detail": "build failed", "file": ""}
    for t in ps["theorems"]:
        obligations.append({"name": t["name"], "kind": "theorem", "discharged": not t["axioms"], "axioms": t["axioms"]})
    log("proofs: %s %d theorems %s" % ("ok" if ps["ok"] else "NOT OK", len(ps["theorems"]), ps["detail"][:300]))
    chk = None
    if tier == "thorough" and b_ok and os.environ.get("VERIF_COQCHK", "1") == "1":
        c_ok, c_tail = coqchk(prop)
        chk = {"ok": c_ok, "tail": c_tail[-600:]}
        log("coqchk: %s" % ("ok" if c_ok else "FAILED"))
        if not c_ok:
            log(c_tail)
    # the model's ASCII table must be CPython's (Base/Chars.v: asc)
    if b_ok:
        outs = run_model(["(1 %d)" % n for n in range(128)])
        bad = [n for n, o in enumerate(outs) if o != "(0 %d)" % enc.enc_char(chr(n))]
        if bad:
            out.violations.append({"kind": "extraction-mismatch", "case": None,
                                   "detail": "Chars.asc disagrees with CPython's character flags on ASCII codes %r" % bad[:10]})
    # 2. cases
    if a.replay:
        payload = json.load(open(a.replay))
        cases = [payload["case"]] if payload.get("case") else []
        for k, c in enumerate(cases):
            c["id"] = "replay#%d" % k
    else:
        rng = random.Random(a.seed)
        cases = load_corpus(prop)
        gen = list(mod.generate(rng, tier))
        for k, c in enumerate(gen):
            c["id"] = "g%d" % k
        cases += gen
    log("cases: %d" % len(cases))
    stats, recs = evaluate(prop, mod, cases, workdir, out, random.Random(a.seed + 1), do_vm=b_ok)
    dis = stats.pop("disagreements")
    log("impl %.1fs model %.1fs compared=%d agree=%d skipped=%d oracle_checked=%d nontrivial=%d" %
        (stats["impl_s"], stats["model_s"], stats["compared"], stats["agree"], stats["skipped_oracle_domain"],
         stats["oracle_checked"], len(stats["nontrivial"])))
    # known findings: replay the recorded witnesses on the tree under test
    known = load_known()
    lines = []
    wit = run_witnesses([k["id"] for k in known.get("open", []) + known.get("fixed", []) if k["property"] == prop])
    for kf in known.get("open", []):
        if kf["property"] != prop:
            continue
        n = out.known.get(kf["id"], 0)
        if wit.get(kf["id"], ("FAILS", ""))[0] == "FAILS" or n:
            log("KNOWN-FINDING: property=%s %s [%s; witness %s; %d failing inputs of this class in this run]" %
                (prop, kf["what"], kf["id"], wit.get(kf["id"], ("?", ""))[0].lower(), n))
    for kf in known.get("fixed", []):
        if kf["property"] != prop:
            continue
        st = wit.get(kf["id"])
        if st and st[0] == "FAILS":
            path = write_replay(prop, {"property": prop, "obligation": "regression of repaired defect " + kf["id"], "case": None,
                                       "witness": "findings/witnesses.py " + kf["id"], "detail": kf["what"] + " :: " + st[1],
                                       "seed": a.seed})
            lines.append("VIOLATION property=%s replay=%s" % (prop, path))
    # 3. decide
    corr_ok = not dis
    obligations.append({"name": "correspondence:%s" % getattr(mod, "ENGINE", prop), "kind": "correspondence",
                        "discharged": corr_ok and b_ok})
    if not b_ok or not ps["ok"] or hyg:
        why = "build failed" if not b_ok else ("hygiene: " + "; ".join(hyg[:3]) if hyg else "proof status: " + ps["detail"])
        failing = [v for v in out.violations if v["kind"] == "oracle"]
        if failing:
            v = failing[0]
            path = write_replay(prop, {"property": prop, "obligation": why, "case": v["case"], "detail": v["detail"],
                                       "impl_out": v.get("impl_out"), "seed": a.seed})
            lines.append("VIOLATION property=%s replay=%s" % (prop, path))
        else:
            path = write_replay(prop, {"property": prop, "obligation": why, "case": None, "seed": a.seed,
                                       "detail": (b_log[-1200:] if not b_ok else ps["detail"])})
            lines.append("VIOLATION property=%s replay=%s no-failing-input-found" % (prop, path))
    else:
        seen = set()
        for v in out.violations:
            if v["kind"] in ("oracle", "impl-crash"):
                key = v["detail"][:60]
                if key in seen and len(seen) >= 1:
                    continue
                seen.add(key)
                path = write_replay(prop, {"property": prop, "obligation": "oracle:" + prop, "case": v["case"],
                                           "detail": v["detail"], "impl_out": v.get("impl_out"), "seed": a.seed})
                lines.append("VIOLATION property=%s replay=%s" % (prop, path))
                if len(lines) >= 3:
                    break
            elif v["kind"] == "extraction-mismatch":
                path = write_replay(prop, {"property": prop, "obligation": "extraction-vs-vm_compute", "case": None,
                                           "detail": v["detail"], "seed": a.seed})
                lines.append("VIOLATION property=%s replay=%s no-failing-input-found" % (prop, path))
        if dis and not any(v["kind"] == "oracle" for v in out.violations):
            d = shrink_disagreement(prop, mod, dis[0], workdir)
            path = write_replay(prop, {"property": prop, "obligation": "correspondence:%s" % getattr(mod, "ENGINE", prop),
                                       "case": d["case"], "model_out": d["model"], "impl_out": d["impl"],
                                       "summary": d.get("summary"), "n_disagreements": len(dis), "seed": a.seed,
                                       "detail": "model and implementation differ on this input; the property oracle accepted "
                                                 "the implementation's output on every explored input"})
            lines.append("VIOLATION property=%s replay=%s no-failing-input-found" % (prop, path))
        elif dis:
            log("note: %d correspondence disagreements accompany the oracle violations" % len(dis))
    # 4. evidence
    samples = []
    for c, r in list(zip(cases, recs))[:400]:
        if r.get("nontrivial") and len(samples) < 5:
            samples.append({"case": c, "impl": r.get("summary")})
    if not samples and cases:
        samples.append({"case": cases[0]})
    n_obl = len(obligations)
    n_dis = sum(1 for o in obligations if o["discharged"])
    ev = {
        "property_id": prop, "tier": tier, "seed": a.seed, "level": "proof",
        "coverage": {
            "obligations": n_obl, "discharged": n_dis,
            "obligation_list": obligations,
            "checker_cmd": "cd /verif && ./build.sh && (cd coq && coqc -Q theories BP theories/Properties/%s.v)" % prop
                           + ("; coqchk -o -Q theories BP BP.Properties.%s" % prop if chk else ""),
            "coqchk": chk,
            "trusted_base": getattr(mod, "TRUSTED", []) + TRUSTED_COMMON,
            "evaluations": stats["evaluations"], "distinct_nontrivial": len(stats["nontrivial"]),
            "rule": getattr(mod, "RULE", ""),
            "samples": samples,
            "compared_with_model": stats["compared"], "agreeing": stats["agree"],
            "skipped_outside_oracle_instances": stats["skipped_oracle_domain"],
            "oracle_checked": stats["oracle_checked"],
            "input_distribution": {"streams": stats["streams"], "results": stats["results"]},
            "vm_crosscheck": stats.get("vm_crosscheck"),
            "repo_statement_coverage_sampled": stats.get("code_coverage_first_shard"),
            "known_findings_hit": out.known,
            "second_pass_differs": stats.get("second_pass_differs", 0),
            "constants_regenerated_from_source": _constants_status(),
            "impl_s": stats["impl_s"], "model_s": stats["model_s"], "build_s": round(b_s, 1),
        },
        "assumptions": getattr(mod, "ASSUMPTIONS", []),
        "wall_s": round(time.time() - t_start, 2),
        "violations": len(lines),
    }
    evdir = os.environ.get("VERIF_EVIDENCE_DIR", os.path.join(ROOT, "evidence"))
    if not a.replay:            # a replay of one recorded input is not a run of the check: the evidence file is left alone
        os.makedirs(evdir, exist_ok=True)
        with open(os.path.join(evdir, prop + ".json"), "w") as f:
            json.dump(ev, f, indent=1, sort_keys=True, default=str)
    for ln in lines:
        log(ln)
    log("== %s: %s (%.1fs)" % (prop, "VIOLATION" if lines else "ok", time.time() - t_start))
    return 1 if lines else 0


def _constants_status():
    try:
        return json.load(open(os.path.join(COQDIR, "theories", "Gen", "constants_status.json")))
    except Exception:  # noqa: BLE001
        return None


TRUSTED_COMMON = [
    "Coq 8.16.1 kernel (coqc; coqchk -o in the thorough tier); vm_compute used in reflexivity proofs over generated constants and for the cross-check sample; native_compute not used",
    "no axioms: every theorem in Properties/ must print 'Closed under the global context'",
    "extraction: Require Extraction + ExtrOcamlBasic only (bool, option, unit, list, prod, sumbool); N/Z/positive stay Coq's; no Extract Constant / Extract Inductive of our own; OCaml 4.13.1 ocamlfind ocamlopt; driver ocaml/driver.ml parses/prints integers and parentheses only",
    "extraction cross-checked on a seeded sample of every run by re-evaluating Dispatch.run_case with vm_compute inside coqc",
    "harness (Python): generators, encoder harness/enc.py (Python object -> sx; CPython's Unicode predicates enter as per-character flags), implementation runner, differ",
    "the model is hand-written (coq/theories/Model) and tied to /repo by the differential correspondence on every run; Gen/Constants.v is regenerated from the running modules (a constant that cannot be read from the source any more falls back to its pinned value and is listed in constants_regenerated_from_source)",
]
