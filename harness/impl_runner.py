#!/usr/bin/env python3
"""Child process: runs the implementation under test on a shard of cases.

usage: impl_runner.py <prop> <cases.jsonl> <records.jsonl>     (PYTHONPATH must be the tree under test)
Each record: id, sx_in / sx_out (text, or null when the case has no model counterpart), oracle verdict,
nontrivial flag, tags, short summary.  A per-case wall-clock limit turns hangs into the exception code TIMEOUT.
"""
import importlib
import json
import os
import signal
import sys
import time
import traceback

HERE = os.path.dirname(os.path.abspath(__file__))
sys.path.insert(0, HERE)
import enc  # noqa: E402
import implutil  # noqa: E402


def main():
    prop, inp, outp = sys.argv[1:4]
    repo = os.environ.get("VERIF_REPO", "/repo")
    cov = None
    if os.environ.get("VERIF_COV_OUT"):
        try:
            import coverage
            cov = coverage.Coverage(data_file=None, include=[os.path.join(os.path.realpath(repo), "bibtexparser", "*")])
            cov.start()
        except Exception:
            cov = None
    import bibtexparser
    assert os.path.realpath(bibtexparser.__file__).startswith(os.path.realpath(repo) + os.sep), \
        "implementation imported from %s, expected under %s" % (bibtexparser.__file__, repo)
    import logging
    logging.disable(logging.CRITICAL)
    import warnings
    warnings.simplefilter("ignore")
    sys.setrecursionlimit(1000)
    mod = importlib.import_module("props." + prop.lower())
    limit = float(os.environ.get("VERIF_CASE_TIMEOUT_S") or getattr(mod, "CASE_TIMEOUT_S", 20)) * int(os.environ.get("VERIF_TIMEOUT_FACTOR", "1"))

    def on_alarm(signum, frame):
        implutil.TIMED_OUT[0] = True
        raise implutil.CaseTimeout()

    # The alarm interrupts the child at an arbitrary point (possibly inside the coverage tracer or while a lock is held): after
    # a timeout the process is not trusted any more.  First pass: the child stops after recording the case; the parent has the
    # rest of the shard (and the timed-out case itself) evaluated again in fresh children (core.run_impl).  Retry children
    # (VERIF_TIMEOUT_FACTOR set; no tracer) carry on, so that a library that really hangs is reported case by case.
    stop_after_timeout = not os.environ.get("VERIF_TIMEOUT_FACTOR")
    poisoned = False
    n_timeouts = 0

    signal.signal(signal.SIGALRM, on_alarm)
    done = []
    hb_path = outp + ".hb"

    def beat():
        # the parent stops a child whose heartbeat stands still for several case limits (a child can wedge itself when the
        # alarm interrupts it inside a lock: seen once, at load 300, as a 46-minute hang)
        try:
            with open(hb_path, "w") as h:
                h.write("x")
        except OSError:
            pass
    beat()
    # the tour through every module of the library is made once, in the middle of the shard (harness/warmup.py)
    n_lines = sum(1 for _ in open(inp))
    tour_at = n_lines // 2 if os.environ.get("VERIF_WARMUP", "1") == "1" and not getattr(mod, "NO_WARMUP", False) else -1
    with open(inp) as f, open(outp, "w") as g:
        for k_line, line in enumerate(f):
            if k_line == tour_at:
                try:
                    beat()
                    import warmup
                    signal.setitimer(signal.ITIMER_REAL, 60)
                    try:
                        warmup.run()
                    finally:
                        signal.setitimer(signal.ITIMER_REAL, 0)
                except BaseException:  # noqa: BLE001 - the tour itself is not judged
                    pass
            c = json.loads(line)
            rec = {"id": c["id"]}
            if k_line == 5 and os.environ.get("VERIF_TEST_WEDGE") == "1" and not os.environ.get("VERIF_TIMEOUT_FACTOR"):
                time.sleep(100000)          # self-test of the parent's watchdog (harness/core.py): never set in a real run
            try:
                signal.setitimer(signal.ITIMER_REAL, limit)
                try:
                    r = mod.impl(c)
                finally:
                    signal.setitimer(signal.ITIMER_REAL, 0)
                for k in ("sx_in", "sx_out"):
                    v = r.get(k)
                    rec[k] = enc.dumps(v) if v is not None else None
                for k in ("oracle", "nontrivial", "key", "tags", "summary", "skip"):
                    if k in r:
                        rec[k] = r[k]
            except implutil.CaseTimeout:
                rec["crash"] = "harness timeout (%ss) outside the guarded call" % limit
            except Exception:
                rec["crash"] = "harness error: " + traceback.format_exc()[-800:]
            g.write(json.dumps(rec) + "\n")
            g.flush()
            beat()
            if implutil.TIMED_OUT[0]:
                n_timeouts += 1
                implutil.TIMED_OUT[0] = False
                if stop_after_timeout or n_timeouts >= 3:      # a retry child gives up after three genuine (6x limit) timeouts
                    poisoned = True
                    break
            if "crash" not in rec:
                done.append((c, rec.get("sx_out"), (rec.get("oracle") or {}).get("ok")))
        if poisoned:
            g.flush()
            os._exit(75)
        # second pass: the library keeps no state between calls, so evaluating a case again later in the same process (after
        # all the other cases, in the opposite order) must give the same result.  Differences are appended as override records.
        n2 = int(os.environ.get("VERIF_SECOND_PASS", "250"))
        if n2 > 0 and done and not getattr(mod, "NO_SECOND_PASS", False):
            # ... and under a different PROCESS ENVIRONMENT: the first pass runs with logging disabled and warnings ignored, the
            # second with every logger at DEBUG (each record is formatted, so lazily built messages are built) and every warning
            # delivered.  What the library returns must not depend on who is listening (seeding round 9: a debug trace that
            # consumed the splitter's next mark).
            if os.environ.get("VERIF_NOISY_SECOND_PASS", "1") == "1":
                logging.disable(logging.NOTSET)
                logging.raiseExceptions = False

                class _Listener(logging.Handler):
                    def emit(self, record):
                        try:
                            self.format(record)
                        except Exception:  # noqa: BLE001 - a message that cannot be formatted is not the library's result
                            pass
                lst = _Listener(level=logging.DEBUG)
                for name in (None, "bibtexparser"):
                    lg = logging.getLogger(name)
                    lg.setLevel(logging.DEBUG)
                    lg.addHandler(lst)
                for name in list(logging.root.manager.loggerDict):
                    if name.startswith("bibtexparser"):
                        logging.getLogger(name).setLevel(logging.DEBUG)
                warnings.simplefilter("always")
                warnings.showwarning = lambda *a, **k: None
            step = max(1, len(done) // n2)
            for c, out1, ok1 in reversed(done[::step][:n2]):
                beat()
                try:
                    signal.setitimer(signal.ITIMER_REAL, limit)
                    try:
                        r = mod.impl(c)
                    finally:
                        signal.setitimer(signal.ITIMER_REAL, 0)
                    out2 = enc.dumps(r["sx_out"]) if r.get("sx_out") is not None else None
                    ok2 = (r.get("oracle") or {}).get("ok")
                    if out2 != out1 or ok2 != ok1:
                        g.write(json.dumps({"id": c["id"], "second_pass": {"sx_out": out2, "oracle": r.get("oracle"),
                                                                           "summary": r.get("summary")}}) + "\n")
                        g.flush()
                except BaseException:  # noqa: BLE001 - the first pass already reported crashes of this case
                    pass
    if cov is not None:
        cov.stop()
        res = {}
        for f in cov.get_data().measured_files():
            try:
                _, stmts, _, missing, _ = cov.analysis2(f)
                res[os.path.relpath(f, os.path.realpath(repo))] = [len(stmts), len(missing), list(missing)]
            except Exception:
                pass
        with open(os.environ["VERIF_COV_OUT"], "w") as h:
            json.dump(res, h)


if __name__ == "__main__":
    main()
