#!/usr/bin/env python3
"""Regenerate coq/theories/Gen/Constants.v from the modules of the tree under test.

Run with the tree on PYTHONPATH (the check does: PYTHONPATH=/repo).  The values are read from
the running modules (tables, module constants) or, for literals local to a function, from the
module's AST.  Output is deterministic; the file is rewritten only when its content changes,
so `make` recompiles only after a real change.
"""
import ast
import os
import sys

sys.path.insert(0, os.path.dirname(os.path.abspath(__file__)))
from enc import enc_char  # noqa: E402


def cstr(s):
    return "[" + "; ".join(str(enc_char(c)) for c in s) + "]%N"


def clist(xs):
    return "[" + ";\n   ".join(cstr(x) for x in xs) + "]"


def _find_call_str(tree, funcname, nth_arg=0):
    out = []
    for node in ast.walk(tree):
        if isinstance(node, ast.Call):
            f = node.func
            name = f.attr if isinstance(f, ast.Attribute) else getattr(f, "id", None)
            if name == funcname and len(node.args) > nth_arg and isinstance(node.args[nth_arg], ast.Constant) \
                    and isinstance(node.args[nth_arg].value, str):
                out.append(node.args[nth_arg].value)
    return out


def _ws_sets(tree):
    """whitespace = set("...") assignments inside names.py, by enclosing function name."""
    res = {}
    for fn in ast.walk(tree):
        if isinstance(fn, ast.FunctionDef):
            for node in ast.walk(fn):
                if isinstance(node, ast.Assign) and len(node.targets) == 1 and isinstance(node.targets[0], ast.Name) \
                        and node.targets[0].id == "whitespace" and isinstance(node.value, ast.Call) \
                        and getattr(node.value.func, "id", None) == "set" and node.value.args \
                        and isinstance(node.value.args[0], ast.Constant):
                    res[fn.name] = node.value.args[0].value
    return res


# Values of the pinned tree.  A constant that can no longer be read from the tree under test the way this script expects
# (renamed module attribute, literal moved into a helper or a class, ...) falls back to its pinned value and is reported in
# Gen/constants_status.json; that is not an alarm by itself - the behaviour is still compared by the correspondence on
# every run - but the evidence says which constants were NOT regenerated from the source.
PINNED = {
    "month_abbrev": ["jan", "feb", "mar", "apr", "may", "jun", "jul", "aug", "sep", "oct", "nov", "dec"],
    "month_full": ["January", "February", "March", "April", "May", "June", "July", "August", "September", "October",
                   "November", "December"],
    "entry_potentially_int_fields": ["year", "month", "volume", "number", "pages", "edition", "chapter", "issue"],
    "strings_can_be_unescaped_ints": False,
    "removed_enclosing_key": "removed_enclosing",
    "remove_enclosing_metadata_key": "removed_enclosing",
    "add_enclosing_metadata_key": "remove_enclosing",
    "val_sep": " = ",
    "parsing_failed_comment": "% WARNING Parsing failed for the following {n} lines.",
    "parsing_failed_comment_of_format": "% WARNING Parsing failed for the following {n} lines.",
    "default_block_type_order": [1, 2, 0, 4, 3],
    "default_name_fields": ["author", "editor", "translator"],
    "names_ws_parse": "\t\n\r ~",
    "names_ws_split": "\t\n\r ",
    "mark_regex_src": r"(?<!\\)[\{\}\",=]|\n|@[\w]*( |\t)*(?={)",
    "default_indent": "\t",
    "default_block_separator": "\n\n",
    "default_trailing_comma": False,
    "default_value_column": "auto",
}
STATUS = {}


def read(name, fn, observe=None):
    """fn() evaluated against the tree under test (reads the constant where the pinned tree keeps it); if that fails and
    `observe` is given, the value is OBSERVED through the public API of the tree under test (a private table that was renamed
    or restructured still shows in what the shipped classes do); the pinned value if both fail or give a value of another shape"""
    try:
        return _read(name, fn, "source")
    except Exception as e:  # noqa: BLE001
        first = "%s: %s" % (type(e).__name__, str(e)[:120])
    if observe is not None:
        try:
            return _read(name, observe, "observed through the public API (not readable where the pinned tree keeps it: %s)" % first)
        except Exception as e:  # noqa: BLE001
            first += "; observation failed: %s: %s" % (type(e).__name__, str(e)[:80])
    STATUS[name] = "pinned value used (%s)" % first
    return PINNED[name]


def _read(name, fn, status):
    if True:
        v = fn()
        pin = PINNED[name]
        if isinstance(pin, list):
            v = list(v)
            if not v or not all(isinstance(x, type(pin[0])) for x in v):
                raise ValueError("unexpected shape %r" % (v,))
        elif isinstance(pin, bool):
            v = bool(v)
        elif isinstance(pin, str) and name != "default_value_column":
            if not isinstance(v, str) or (v == "" and pin != ""):
                raise ValueError("unexpected value %r" % (v,))
        STATUS[name] = status
        return v


def generate():
    import importlib
    import inspect

    def mod(name):
        return importlib.import_module(name)

    import bibtexparser
    root = os.path.dirname(bibtexparser.__file__)

    def tree(rel):
        return ast.parse(open(os.path.join(root, rel)).read())

    def ws_of(fname):
        ws = _ws_sets(tree(os.path.join("middlewares", "names.py")))
        return "".join(sorted(ws[fname]))

    def regex():
        r = _find_call_str(tree("splitter.py"), "finditer")
        if len(r) != 1:
            raise ValueError("%d finditer patterns" % len(r))
        return r[0]

    def order():
        model = mod("bibtexparser.model")
        cls_code = {model.Entry: 0, model.String: 1, model.Preamble: 2, model.ExplicitComment: 3, model.ImplicitComment: 4,
                    model.ParsingFailedBlock: 5, model.MiddlewareErrorBlock: 6, model.DuplicateBlockKeyBlock: 7,
                    model.DuplicateFieldKeyBlock: 8}
        return [cls_code[c] for c in mod("bibtexparser.middlewares.sorting_blocks").DEFAULT_BLOCK_TYPE_ORDER]

    def fmt():
        return mod("bibtexparser.writer").BibtexFormat()

    month = "bibtexparser.middlewares.month"
    encl = "bibtexparser.middlewares.enclosing"

    def month_by(mw_name):
        # what the shipped middleware turns the integers 1..12 into
        from bibtexparser.library import Library
        from bibtexparser.model import Entry, Field
        mw = getattr(mod(month), mw_name)()
        return [mw.transform(Library([Entry("article", "k", [Field("month", i)])])).entries[0]["month"] for i in range(1, 13)]

    def ws_observed(kind):
        # which characters separate words (parse) / stand around the ` and ` separator (split), tried on every whitespace
        # character of Unicode plus the tie
        names = mod("bibtexparser.middlewares.names")
        cand = [chr(c) for c in range(0x3001) if chr(c).isspace()] + ["~"]
        if kind == "parse":
            sep = [c for c in cand if names.parse_single_name_into_parts("Aa" + c + "Bb", strict=False).last == ["Bb"]
                   and names.parse_single_name_into_parts("Aa" + c + "Bb", strict=False).first == ["Aa"]]
        else:
            sep = [c for c in cand if names.split_multiple_persons_names("Aa" + c + "and" + c + "Bb") == ["Aa", "Bb"]]
        return "".join(sorted(sep))

    m_abbrev = read("month_abbrev", lambda: mod(month)._MONTH_ABBREV, lambda: month_by("MonthAbbreviationMiddleware"))
    m_full = read("month_full", lambda: mod(month)._MONTH_FULL, lambda: month_by("MonthLongStringMiddleware"))
    STATUS_KEEP = dict(STATUS)
    # derived tables (kept in the generated file because the month model checks them against each other)
    try:
        lc_full = list(mod(month)._LOWERCASE_FULL)
        a2f_keys = list(mod(month)._MONTH_ABBREV_TO_FULL.keys())
        a2f_vals = list(mod(month)._MONTH_ABBREV_TO_FULL.values())
        STATUS["month_derived_tables"] = "source"
    except Exception as e:  # noqa: BLE001
        lc_full, a2f_keys, a2f_vals = [x.lower() for x in m_full], list(m_abbrev), list(m_full)
        STATUS["month_derived_tables"] = "derived from the two month lists (%s)" % type(e).__name__
    L = []
    w = L.append
    w("(* GENERATED by harness/gen_constants.py from the tree under test -- do not edit. *)")
    w("From Coq Require Import List NArith ZArith Bool.")
    w("From BP Require Import Base.Chars.")
    w("Import ListNotations.")
    w("")
    w("Definition month_abbrev : list str :=\n  %s." % clist(m_abbrev))
    w("Definition month_full : list str :=\n  %s." % clist(m_full))
    w("Definition month_lowercase_full_src : list str :=\n  %s." % clist(lc_full))
    w("Definition month_abbrev_to_full_keys : list str :=\n  %s." % clist(a2f_keys))
    w("Definition month_abbrev_to_full_vals : list str :=\n  %s." % clist(a2f_vals))
    w("Definition entry_potentially_int_fields : list str :=\n  %s." %
      clist(read("entry_potentially_int_fields", lambda: mod(encl).ENTRY_POTENTIALLY_INT_FIELDS)))
    w("Definition strings_can_be_unescaped_ints : bool := %s." %
      ("true" if read("strings_can_be_unescaped_ints", lambda: mod(encl).STRINGS_CAN_BE_UNESCAPED_INTS) else "false"))
    w("Definition removed_enclosing_key : str := %s." % cstr(read("removed_enclosing_key", lambda: mod(encl).REMOVED_ENCLOSING_KEY)))
    w("Definition remove_enclosing_metadata_key : str := %s." %
      cstr(read("remove_enclosing_metadata_key", lambda: mod(encl).RemoveEnclosingMiddleware.metadata_key())))
    w("Definition add_enclosing_metadata_key : str := %s." %
      cstr(read("add_enclosing_metadata_key", lambda: mod(encl).AddEnclosingMiddleware.metadata_key())))
    w("Definition val_sep : str := %s." % cstr(read("val_sep", lambda: mod("bibtexparser.writer").VAL_SEP)))
    w("Definition parsing_failed_comment : str := %s." %
      cstr(read("parsing_failed_comment", lambda: mod("bibtexparser.writer").PARSING_FAILED_COMMENT)))
    w("Definition default_block_type_order : list N := [%s]%%N." % "; ".join(str(c) for c in read("default_block_type_order", order)))
    w("Definition default_name_fields : list str :=\n  %s." % clist(read("default_name_fields", lambda: inspect.signature(
        mod("bibtexparser.middlewares.names")._NameTransformerMiddleware.__init__).parameters["name_fields"].default,
        lambda: mod("bibtexparser.middlewares.names").SeparateCoAuthors().name_fields)))
    w("Definition names_ws_parse : str := %s." % cstr(read("names_ws_parse", lambda: ws_of("parse_single_name_into_parts"), lambda: ws_observed("parse"))))
    w("Definition names_ws_split : str := %s." % cstr(read("names_ws_split", lambda: ws_of("split_multiple_persons_names"), lambda: ws_observed("split"))))
    w("Definition mark_regex_src : str := %s." % cstr(read("mark_regex_src", regex)))
    w("Definition default_indent : str := %s." % cstr(read("default_indent", lambda: fmt().indent)))
    w("Definition default_block_separator : str := %s." % cstr(read("default_block_separator", lambda: fmt().block_separator)))
    w("Definition default_trailing_comma : bool := %s." % ("true" if read("default_trailing_comma", lambda: fmt().trailing_comma) else "false"))
    vc = read("default_value_column", lambda: fmt().value_column)
    w("Definition default_value_column : option N := %s." % ("None" if vc == "auto" else "Some %d%%N" % vc))
    w("Definition default_failed_comment : str := %s." % cstr(read("parsing_failed_comment_of_format", lambda: fmt().parsing_failed_comment)))
    return "\n".join(L) + "\n"


def main():
    out = os.path.join(os.path.dirname(os.path.abspath(__file__)), "..", "coq", "theories", "Gen", "Constants.v")
    out = os.path.normpath(out)
    if os.environ.get("VERIF_CONSTANTS_OUT"):        # dry run into a scratch directory (tools/benign.py): the build is not touched
        out = os.path.join(os.environ["VERIF_CONSTANTS_OUT"], "Constants.v")
    text = generate()
    old = open(out).read() if os.path.exists(out) else None
    if old != text:
        os.makedirs(os.path.dirname(out), exist_ok=True)
        with open(out, "w") as f:
            f.write(text)
        print("gen_constants: rewrote", out)
    else:
        print("gen_constants: unchanged")
    import json
    with open(os.path.join(os.path.dirname(out), "constants_status.json"), "w") as f:
        json.dump(STATUS, f, indent=1, sort_keys=True)
    for k, v in sorted(STATUS.items()):
        if v != "source":
            print("gen_constants: %s: %s" % (k, v))


if __name__ == "__main__":
    main()
