"""Input generators shared by the splitter properties (C01-C05, C09).

T  bounded-exhaustive token sequences over the 14-token alphabet
G  grammar derivations from DESIGN.md section 3 with constructive ground truth
M  mutations of G documents
U  garbage: arbitrary code points
S  size-scaled families
Every random choice comes from the rng passed in.
"""
import itertools

TOKENS = ["@a{", "@comment{", "@string{", "@preamble{", "{", "}", '"', ",", "=", "\n", "\\", "x", " ", "#"]


def token_seqs(maxlen, alphabet=TOKENS):
    for n in range(maxlen + 1):
        for tup in itertools.product(alphabet, repeat=n):
            yield "".join(tup)


def random_token_seq(rng, lo, hi, alphabet=TOKENS):
    return "".join(rng.choice(alphabet) for _ in range(rng.randint(lo, hi)))


# ------------------------------------------------------------------ grammar derivations
WS_GAP = [" ", "\t", "\n", "\n", "\n\n", "\r\n", "  ", "\n \n", "\x0c", " ", " "]
HWS = ["", "", " ", "\t", "  ", " \t"]
INNER_WS = ["", "", " ", " ", "\n", "\n  ", "\t", "\r\n ", "  "]
# block types with non-ASCII word characters, incl. letters that re.IGNORECASE / casefold identify with ASCII letters of the
# keywords but str.lower() does not (long s, dotted capital I, dotless i, Kelvin sign)
EDGE_TYPES = ["konferenzbeitr\u00e4ge", "\u0441\u0442\u0430\u0442\u044c\u044f", "\u017ftring", "STR\u0130NG", "str\u0131ng",
              "\u01c4x", "\ufb01le", "\u212aey", "\u0661\u0662", "x\u00b2"]
# characters at the very start / end of a document (byte order mark, NUL, zero-width and exotic separators)
EDGE_CHARS = ["\ufeff", "\x00", "\u200b", "\u2060", "\xa0", "\x85", "\x1c", "\u2028", "\r", "\x0b", "\x0c", "\ufffe", "\U000e0001"]
TYPES = ["article", "Article", "BOOK", "inProceedings", "misc", "a", "x_1", "techreport", "Strin", "commen", "pre"] + EDGE_TYPES[:5]


def edge_wrap(rng, text):
    """text with an edge character put in front of / behind it"""
    c = rng.choice(EDGE_CHARS)
    r = rng.random()
    if r < 0.5:
        return c + text
    if r < 0.75:
        return text + c
    return c + text + rng.choice(EDGE_CHARS)
KEYCH = "abcXYZ019.-:_/+"
SAFE_ATOMS = ["a", "B", "c", "1", "2", " ", " ", "\n", ".", "-", "é", "ß", "\\{", "\\}", '\\"', "\\,", "\\=", "\\x", "\\\\a",
              "@.", "@ x", "#", "~", ":", "%", "$", "&", "(", ")", "and", "The", "\t", "\r\n", "é", "\U0001d538",
              # runs of backslashes before a delimiter: the delimiter is escaped iff the character before it is a backslash
              "\\\\{", "\\\\}", "\\\\\\{", "\\\\\\}", '\\\\"', '\\\\\\"', "\\\\,", "\\\\\\\\{x\\\\\\\\}", "a@b.c"]
# near misses of the block-start pattern `@word hws* {`: something other than blanks/tabs between the word and the brace
NEAR_START = ["@\n", "@w\n ", "a@b\r\n", "@w\x0c", "@w\u00a0", "@w-", "@w \n\t", "@\u2028", "@w."]
BRACED_EXTRA = [",", "=", '"', ",", "="]
QUOTED_EXTRA = [",", "="]


def _key(rng, pool=None):
    if pool:
        return rng.choice(pool)
    return "".join(rng.choice(KEYCH) for _ in range(rng.randint(1, 8)))


def _E(s):
    import enc
    return enc.enc_str(s)


def _braced(rng, depth):
    """content of a brace group: bchar* with nested groups -> (text, ast)"""
    out, ast = [], []
    for _ in range(rng.randint(0, 5)):
        r = rng.random()
        if r < 0.2 and depth > 0:
            if rng.random() < 0.3:
                t = rng.choice(NEAR_START)
                out.append(t)
                ast.extend(_E(t))
            t, a = _braced(rng, depth - 1)
            out.append("{" + t + "}")
            ast.append(a)
        elif r < 0.35:
            t = rng.choice(BRACED_EXTRA)
            out.append(t)
            ast.extend(_E(t))
        else:
            t = rng.choice(SAFE_ATOMS)
            out.append(t)
            ast.extend(_E(t))
    return "".join(out), ast


def _quoted(rng, depth):
    out, ast = [], []
    for _ in range(rng.randint(0, 5)):
        r = rng.random()
        if r < 0.2 and depth > 0:
            if rng.random() < 0.3:
                t = rng.choice(NEAR_START)
                out.append(t)
                ast.extend(_E(t))
            t, a = _quoted(rng, depth - 1)
            out.append("{" + t + "}")
            ast.append(a)
        elif r < 0.3:
            t = rng.choice(QUOTED_EXTRA)
            out.append(t)
            ast.extend(_E(t))
        else:
            t = rng.choice(SAFE_ATOMS)
            out.append(t)
            ast.extend(_E(t))
    return "".join(out), ast


def _bare(rng):
    return rng.choice(["1990", "jan", "12", "a.b", "x-y", "10--20", "mar", "Foo", "k1", "k2", "K1", "2020", "07", "abbr"])


def _piece(rng, depth, bare_pool=None):
    r = rng.random()
    if r < 0.25:
        t = rng.choice(bare_pool) if bare_pool and rng.random() < 0.7 else _bare(rng)
        return t, [0, _E(t)]
    if r < 0.7:
        t, a = _braced(rng, depth)
        return "{" + t + "}", [1, a]
    t, a = _quoted(rng, depth)
    return '"' + t + '"', [2, a]


def _value(rng, depth, bare_pool=None):
    t, a = _piece(rng, depth, bare_pool)
    ps, rest = [t], []
    while rng.random() < 0.15:
        w1, w2 = rng.choice(INNER_WS), rng.choice(INNER_WS)
        t2, a2 = _piece(rng, depth, bare_pool)
        ps.append(w1 + "#" + w2 + t2)
        rest.append([_E(w1), _E(w2), a2])
    return "".join(ps), [a, rest]


def gen_doc(rng, max_items=8, depth=3, entry_keys=None, string_keys=None, field_names=None, kinds=None, bare_pool=None,
            with_ast=False):
    """Returns (text, items) or, with_ast, (text, items, ast).  Each item is a dict describing the source block:
    kind, text (raw), start_line, and per kind: type/key/fields[(name, value, line)] | key/value | value | comment.
    ast is the derivation in the sx encoding documented in coq/theories/Run/RunGrammar.v."""
    kinds = kinds or ["entry", "entry", "entry", "string", "preamble", "comment", "freetext"]
    parts = []
    items = []
    ast_items = []
    text_len_lines = 0

    def emit(s):
        nonlocal text_len_lines
        parts.append(s)
        text_len_lines += s.count("\n")

    def gap(allow_empty=True):
        n = rng.randint(0 if allow_empty else 1, 3)
        g = "".join(rng.choice(WS_GAP) for _ in range(n))
        emit(g)
        return g

    gap0 = gap()
    last_free = False
    for _ in range(rng.randint(0, max_items)):
        kind = rng.choice(kinds)
        if kind == "freetext" and last_free:
            kind = "comment"
        line0 = text_len_lines
        if kind == "entry":
            typ = rng.choice(TYPES)
            key = _key(rng, entry_keys)
            hws, w1, w2 = rng.choice(HWS), rng.choice(INNER_WS), rng.choice(INNER_WS)
            head = "@" + typ + hws + "{" + w1 + key + w2
            buf = [head]
            fields = []
            fasts = []
            nf = rng.randint(0, 4)
            if nf == 0 and rng.random() < 0.5:
                buf.append("}")            # @a{k}
                etail = []
            else:
                buf.append(",")
                trail = []
                for i in range(nf):
                    name = _key(rng, field_names)
                    pre = rng.choice(INNER_WS)
                    mid1 = rng.choice(INNER_WS)
                    mid2 = rng.choice(INNER_WS)
                    val, vast = _value(rng, depth, bare_pool)
                    post = rng.choice(INNER_WS)
                    before = "".join(buf) + pre + name + mid1
                    fline = line0 + before.count("\n")
                    buf.append(pre + name + mid1 + "=" + mid2 + val + post)
                    fields.append([name, val, fline])
                    fasts.append([_E(pre), _E(name), _E(mid1), _E(mid2), vast, _E(post)])
                    if i < nf - 1 or rng.random() < 0.4:
                        buf.append(",")
                if nf == 0 or buf[-1] == ",":
                    w = rng.choice(INNER_WS)
                    buf.append(w)
                    trail = [_E(w)]
                buf.append("}")
                etail = [[fasts, trail]]
            raw = "".join(buf)
            items.append({"kind": "entry", "raw": raw, "line": line0, "type": typ.lower(), "key": key, "fields": fields})
            ast_items.append([0, _E(typ), _E(hws), _E(w1), _E(key), _E(w2), etail])
        elif kind == "string":
            kw = rng.choice(["string", "String", "STRING", "sTrInG"])
            name = _key(rng, string_keys)
            val, vast = _value(rng, depth)
            hws, w1, w2, w3, w4 = rng.choice(HWS), rng.choice(INNER_WS), rng.choice(INNER_WS), rng.choice(INNER_WS), rng.choice(INNER_WS)
            raw = "@" + kw + hws + "{" + w1 + name + w2 + "=" + w3 + val + w4 + "}"
            items.append({"kind": "string", "raw": raw, "line": line0, "key": name, "value": val})
            ast_items.append([1, _E(kw), _E(hws), _E(w1), _E(name), _E(w2), _E(w3), vast, _E(w4)])
        elif kind == "preamble":
            kw = rng.choice(["preamble", "Preamble", "PREAMBLE"])
            body, bast = _braced(rng, depth)
            hws = rng.choice(HWS)
            raw = "@" + kw + hws + "{" + body + "}"
            items.append({"kind": "preamble", "raw": raw, "line": line0, "value": body})
            ast_items.append([2, _E(kw), _E(hws), bast])
        elif kind == "comment":
            kw = rng.choice(["comment", "Comment", "COMMENT"])
            body, bast = _braced(rng, depth)
            hws = rng.choice(HWS)
            raw = "@" + kw + hws + "{" + body + "}"
            items.append({"kind": "comment", "raw": raw, "line": line0, "comment": body.strip()})
            ast_items.append([3, _E(kw), _E(hws), bast])
        else:
            # free text: starts and ends with a non-whitespace character; may contain any delimiter; no block start
            atoms = ["foo", "%", "bar", " ", "\n", "{", "}", '"', ",", "=", "@.", "\\", "x", "#", "é", "\t", "b a z",
                     "@w\n{", "@\n {", "a@b\x0c{", "@w\u00a0{", "\\\\{", "\\\\\\{"]
            mid = "".join(rng.choice(atoms) for _ in range(rng.randint(0, 6)))
            raw = rng.choice(["%", "x", "foo", "}", ",", "%", "x", "\ufeff", "\x00", "\u200b"]) + ((mid + rng.choice(["y", "%", "}", "=", "Z"])) if rng.random() < 0.7 else "")
            items.append({"kind": "freetext", "raw": raw, "line": line0, "comment": raw})
            ast_items.append([4, _E(raw)])
        emit(raw)
        last_free = (kind == "freetext")
        g = gap()
        ast_items[-1] = [ast_items[-1], _E(g)]
    text = "".join(parts)
    if with_ast:
        return text, items, [_E(gap0), ast_items]
    return text, items


# ------------------------------------------------------------------ mutations
def mutate(rng, text):
    if not text:
        return rng.choice(TOKENS)
    r = rng.random()
    i = rng.randrange(len(text))
    if r < 0.3:
        return text[:i]                                   # truncate
    if r < 0.5:
        return text[:i] + text[i + 1:]                    # delete one character
    if r < 0.75:
        return text[:i] + rng.choice(['{', '}', '"', ',', '=', '@a{', '\\', '\n', '@comment{', '@string{', '{', '}', '"', '@a{',
                                      '@\u017ftring{', '@STR\u0130NG{', '@\u0441\u0442\u0430\u0442\u044c\u044f{', '\ufeff']) + text[i:]
    if r < 0.85:
        j = rng.randrange(len(text))
        a, b = min(i, j), max(i, j)
        return text[:b] + text[a:b] + text[b:]            # duplicate a slice
    j = rng.randrange(len(text))
    return text[:i] + text[j:]                            # splice


def garbage(rng, n=None):
    n = n if n is not None else rng.randint(0, 40)
    pools = [lambda: chr(rng.randint(0, 127)), lambda: rng.choice('{}",=@\\\n \t#'), lambda: chr(rng.randint(128, 0x2fff)),
             lambda: chr(rng.randint(0x10000, 0x1ffff)), lambda: rng.choice("\x00\r \u0085𐏿"),
             lambda: rng.choice("٣९５Ⅷ²ªǅΣ"), lambda: rng.choice(["@a{", "@é{", "@٣{", "@comment{", "@String {", "@_\t{"]),
             lambda: "@" + rng.choice(EDGE_TYPES) + rng.choice(["{", " {", "{k,", "{a = b}"]), lambda: rng.choice(EDGE_CHARS)]
    return "".join(rng.choice(pools)() for _ in range(n))


def scaled(tier):
    """size-scaled families: (name, text)"""
    sizes = [1000, 3000] if tier == "quick" else [1000, 10000, 100000]
    out = []
    for n in sizes:
        out.append(("blank_lines_%d" % n, "\n" * n))
        out.append(("comment_lines_%d" % n, "% a comment line\n" * n))
        out.append(("entries_%d" % n, "".join("@article{k%d,\n a = {b%d}\n}\n" % (i, i) for i in range(n // 4))))
        out.append(("unterminated_%d" % n, "@article{k,\n a = {" + "line\n" * n))
        out.append(("long_value_%d" % n, "@article{k,\n a = {" + "line\n" * n + "}}\n@comment{x}"))
        out.append(("nesting_%d" % n, "@article{k, a = " + "{" * min(n, 20000) + "x" + "}" * min(n, 20000) + "}"))
        out.append(("same_key_%d" % n, "@a{k, t={x}}\n" * (n // 4)))
        out.append(("quotes_%d" % n, "@a{k, t=\"" + "x\n" * n))
        out.append(("stray_close_%d" % n, "}\n" * n + "@a{k}"))
    # every scanner x long runs of every mark kind (balanced and unterminated): depth / length above the
    # interpreter's recursion limit in each of the splitter's loops
    n = 2500 if tier == "quick" else 30000
    prefixes = ["", "@comment{", "@preamble{", "@string{k = ", "@string{", "@a{", "@a{k, ", "@a{k, x = ", "@a{k, x = {", '@a{k, x = "']
    runs = ["{", "}", '"', ",", "=", "\n", "x", "{}", "@a{", "\\", "{\n", '""', "x = {y},\n"]
    for pi, pre in enumerate(prefixes):
        for ri, run in enumerate(runs):
            out.append(("run_%d_%d_open" % (pi, ri), pre + run * n))
            if run == "{":
                out.append(("run_%d_%d_balanced" % (pi, ri), pre + "{" * n + "x" + "}" * n + "}\n@comment{tail}"))
    return out
