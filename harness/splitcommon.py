"""Shared implementation-side helpers for the splitter properties."""
import re

import enc
import implutil

AT_RE = re.compile(r"@[\w]*( |\t)*(?={)")


def lower_ok(text):
    """All @-matches lower-case the ASCII way (model instance of str.lower)."""
    for m in AT_RE.finditer(text):
        if not enc.lower_is_ascii_only(m.group(0)):
            return False
    return True


def split_impl(text):
    import bibtexparser
    return implutil.guarded(lambda: bibtexparser.parse_string(text, parse_stack=[]))


def enc_result(r):
    if r[0] == "exc":
        return implutil.r_exc(6 if r[1] not in (5, 9, 99) else r[1])
    return implutil.r_ok([enc.enc_block(b) for b in r[1].blocks])


def summary(r):
    if r[0] == "exc":
        return "raised " + r[2]
    out = []
    for b in r[1].blocks:
        cn = type(b).__name__
        out.append("%s@%s:%r" % (cn[:6], b.start_line, (b.raw or "")[:30]))
    return " | ".join(out)[:400]


def block_kinds(lib):
    return [type(b).__name__ for b in lib.blocks]


def base_record(text, op=132):
    """Run the splitter on text; return (record, guarded result)."""
    r = split_impl(text)
    rec = {"sx_in": [op, enc.enc_str(text)], "sx_out": enc_result(r), "summary": summary(r)}
    if not lower_ok(text):
        rec["skip"] = True
    return rec, r


# ---- independent checks of the property statements on implementation output
def tiles(text, blocks):
    """C03: raws occur in order without overlap, only whitespace between/around. Returns (ok, detail, offsets)."""
    s = "\n" + text
    pos = 0
    offs = []
    for b in blocks:
        raw = b.raw
        if not isinstance(raw, str) or raw == "":
            return False, "block %s has no raw text" % type(b).__name__, offs
        # the gap before the raw is whitespace only: try every admissible start
        j = pos
        found = -1
        while True:
            if s.startswith(raw, j):
                found = j
                break
            if j < len(s) and s[j].isspace():
                j += 1
            else:
                break
        if found < 0:
            return False, "after offset %d expected raw %r (only whitespace before it), source has %r" % (pos, raw[:40], s[pos:pos + 40]), offs
        j = found
        offs.append(j)
        pos = j + len(raw)
    if s[pos:].strip() != "":
        return False, "text %r after the last block is in no block" % s[pos:pos + 40], offs
    return True, "", offs


def true_lines(text, blocks, offs):
    s = "\n" + text
    for b, o in zip(blocks, offs):
        ln = s.count("\n", 0, o) - 1
        if b.start_line != ln:
            return False, "block %s raw %r starts on line %d but start_line=%r" % (type(b).__name__, b.raw[:30], ln, b.start_line)
    return True, ""


def expected_matches(lib, items):
    """C02: compare library blocks with the generator's ground truth. Returns (ok, detail)."""
    bs = lib.blocks
    if len(bs) != len(items):
        return False, "%d blocks for %d source blocks: %s" % (len(bs), len(items), block_kinds(lib))
    for i, (b, it) in enumerate(zip(bs, items)):
        cn = type(b).__name__
        want = {"entry": "Entry", "string": "String", "preamble": "Preamble", "comment": "ExplicitComment",
                "freetext": "ImplicitComment"}[it["kind"]]
        if cn != want:
            return False, "block %d is %s, expected %s (raw %r)" % (i, cn, want, it["raw"][:40])
        if b.raw != it["raw"]:
            return False, "block %d raw %r != %r" % (i, b.raw[:60], it["raw"][:60])
        if b.start_line != it["line"]:
            return False, "block %d start_line %r != %d" % (i, b.start_line, it["line"])
        if it["kind"] == "entry":
            if b.entry_type != it["type"] or b.key != it["key"]:
                return False, "block %d type/key %r/%r != %r/%r" % (i, b.entry_type, b.key, it["type"], it["key"])
            got = [[f.key, f.value, f.start_line] for f in b.fields]
            if got != it["fields"]:
                return False, "block %d fields %r != %r" % (i, got, it["fields"])
        elif it["kind"] == "string":
            if b.key != it["key"] or b.value != it["value"]:
                return False, "block %d string %r=%r != %r=%r" % (i, b.key, b.value, it["key"], it["value"])
        elif it["kind"] == "preamble":
            if b.value != it["value"]:
                return False, "block %d preamble %r != %r" % (i, b.value, it["value"])
        else:
            if b.comment != it["comment"]:
                return False, "block %d comment %r != %r" % (i, b.comment, it["comment"])
    return True, ""


def doc_is_nodup(items):
    ek, sk = set(), set()
    for it in items:
        if it["kind"] == "entry":
            if it["key"] in ek:
                return False
            ek.add(it["key"])
            names = [f[0] for f in it["fields"]]
            if len(set(names)) != len(names):
                return False
        elif it["kind"] == "string":
            if it["key"] in sk:
                return False
            sk.add(it["key"])
    return True


def content(lib):
    """C04/C05 projection of a library: everything but raw / start lines / metadata."""
    out = []
    for b in lib.blocks:
        out.append(block_content(b))
    return out


def block_content(b):
    cn = type(b).__name__
    if cn == "Entry":
        return [cn, b.entry_type, b.key, [[f.key, f.value] for f in b.fields]]
    if cn == "String":
        return [cn, b.key, b.value]
    if cn == "Preamble":
        return [cn, b.value]
    if cn in ("ExplicitComment", "ImplicitComment"):
        return [cn, b.comment]
    if cn == "DuplicateBlockKeyBlock":
        return [cn, b.key, block_content(b.ignore_error_block)]
    if cn == "DuplicateFieldKeyBlock":
        return [cn, sorted(b.duplicate_keys), block_content(b.ignore_error_block)]
    return [cn, b.raw]


def shrink_text(case, field="text"):
    t = case["input"][field]
    n = len(t)
    cands = []
    for size in (n // 2, n // 4, 1):
        if size < 1:
            continue
        for i in range(0, n, max(1, size)):
            cands.append(t[:i] + t[i + size:])
    seen = set()
    for c in cands:
        if c != t and c not in seen:
            seen.add(c)
            cc = dict(case)
            cc["input"] = dict(case["input"])
            cc["input"][field] = c
            yield cc
