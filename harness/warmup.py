"""A fixed tour through the public API of the library under test.

impl_runner runs it once in the middle of every shard: the cases before it see a process in which only their own
property's code has run, the cases after it see a process in which every module has been used.  The library keeps no state
between calls, so results must not depend on which side of the tour a case falls; any difference shows up as a
disagreement with the (stateless) model or as an oracle failure."""


def run():
    import io
    import bibtexparser
    from bibtexparser import middlewares as M
    from bibtexparser.library import Library
    from bibtexparser.model import Entry, Field, String, Preamble, ExplicitComment, ImplicitComment
    from bibtexparser.middlewares.names import parse_single_name_into_parts, split_multiple_persons_names, NameParts
    text = ('% free text\n@string{jan = "January"}\n@preamble{"\\\\newcommand{\\\\x}{y}"}\n@comment{a {nested} comment}\n'
            '@article{k1,\n  author = {Donald E. Knuth and van Beethoven, Ludwig and {Barnes and Noble} and Jean~de~la Fontaine, Jr, X},\n'
            '  title = "An {\\\'E}tude on $x^2$ \\& 100\\% of http://a.b/c~d", month = jan, year = 1990, pages = {1--2}, Note = {n} # jan\n}\n'
            '@article{k1, title = {dup}}\n@book{k2, a = 1, a = 2}\n@misc{k3}\n@article{broken, title = {x\n@string{s2 = {v}}\n')
    errors = []

    def step(fn):
        try:
            return fn()
        except Exception as e:  # noqa: BLE001 - the tour must not stop; what the calls return is not judged here
            errors.append(type(e).__name__)
            return None

    lib = step(lambda: bibtexparser.parse_string(text))
    step(lambda: bibtexparser.parse_string(text, parse_stack=[]))
    step(lambda: bibtexparser.parse_string("@a{x, t = {y}}", library=bibtexparser.parse_string("@a{x, t = {z}}")))
    step(lambda: bibtexparser.parse_string(text, append_middleware=[M.SeparateCoAuthors(), M.SplitNameParts()]))
    for name in ["Donald E. Knuth", "van Beethoven, Ludwig", "Jean~de~la Fontaine, Jr, X", "{Barnes and Noble}", "a~b and~c", "x,", "{"]:
        step(lambda: parse_single_name_into_parts(name, strict=False))
        step(lambda: parse_single_name_into_parts(name, strict=True))
        step(lambda: split_multiple_persons_names(name + " and " + name))
    if lib is not None:
        mws = [M.MonthIntMiddleware, M.MonthAbbreviationMiddleware, M.MonthLongStringMiddleware, M.RemoveEnclosingMiddleware,
               M.ResolveStringReferencesMiddleware, M.LatexEncodingMiddleware, M.LatexDecodingMiddleware, M.NormalizeFieldKeys,
               M.SortFieldsAlphabeticallyMiddleware, M.SortBlocksByTypeAndKeyMiddleware, M.SeparateCoAuthors, M.SplitNameParts,
               M.MergeNameParts, M.MergeCoAuthors]
        cur = lib
        for mw in mws:
            for kw in ({}, {"allow_inplace_modification": False}):
                r = step(lambda: mw(**kw).transform(cur))
                if r is not None and kw:
                    cur = r
        step(lambda: M.SortFieldsCustomMiddleware(order=("title", "Author")).transform(lib))
        step(lambda: M.AddEnclosingMiddleware(reuse_previous_enclosing=True, enclose_integers=False, default_enclosing='"').transform(lib))
        for col in (0, 12, "auto"):
            def w():
                f = bibtexparser.BibtexFormat()
                f.value_column = col
                f.indent = "  "
                f.trailing_comma = True
                return bibtexparser.write_string(lib, bibtex_format=f)
            step(w)
        step(lambda: bibtexparser.write_string(lib, unparse_stack=[]))
        step(lambda: bibtexparser.write_string(lib, prepend_middleware=[M.MergeNameParts(), M.MergeCoAuthors()]))
    l2 = Library()
    e = Entry("article", "k", [Field("a", "1"), Field("B", "2")])
    step(lambda: l2.add([e, String("s", "v"), Preamble("p"), ExplicitComment("c"), ImplicitComment("i")]))
    step(lambda: l2.add(Entry("article", "k", [])))
    step(lambda: l2.replace(e, Entry("article", "k9", [Field("a", "1")])))
    step(lambda: l2.remove(l2.blocks[-1]))
    step(lambda: (e.set_field(Field("c", "3")), e.pop("a"), e.get("zz"), e["c"], "c" in e, e.items(), e.fields_dict))
    step(lambda: (l2.entries, l2.strings, l2.comments, l2.preambles, l2.failed_blocks, l2.entries_dict, l2.strings_dict))
    step(lambda: bibtexparser.write_file(io.StringIO(), l2))
    step(lambda: NameParts(first=["A"], last=["B"]).merge_last_name_first)
    return errors
