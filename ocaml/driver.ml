(* Driver for the extracted model: reads one S-expression of integers per line on stdin, applies
   Dispatch.run_case, prints the resulting S-expression on one line.  Only integers and parentheses
   are handled here; every decoding into model types is Gallina (Run/Codec.v, Run/Dispatch.v). *)
module String = Stdlib.String
module List = Stdlib.List
open BinNums

let rec pos_of_int (n : int) : positive =
  if n = 1 then Coq_xH
  else if n land 1 = 0 then Coq_xO (pos_of_int (n lsr 1))
  else Coq_xI (pos_of_int (n lsr 1))
let z_of_int (n : int) : coq_Z =
  if n = 0 then Z0 else if n > 0 then Zpos (pos_of_int n) else Zneg (pos_of_int (- n))
let rec int_of_pos (p : positive) : int =
  match p with Coq_xH -> 1 | Coq_xO q -> 2 * int_of_pos q | Coq_xI q -> 2 * int_of_pos q + 1
let int_of_z (z : coq_Z) : int =
  match z with Z0 -> 0 | Zpos p -> int_of_pos p | Zneg p -> - (int_of_pos p)

let parse (s : string) : Sx.sx =
  let n = String.length s in
  let stack : Sx.sx list ref list ref = ref [ref []] in
  let i = ref 0 in
  while !i < n do
    let c = s.[!i] in
    if c = '(' then (stack := ref [] :: !stack; incr i)
    else if c = ')' then begin
      (match !stack with
       | top :: (next :: _ as rest) -> next := Sx.L (List.rev !top) :: !next; stack := rest
       | _ -> failwith "unbalanced");
      incr i end
    else if c = ' ' || c = '\n' || c = '\t' || c = '\r' then incr i
    else begin
      let j = ref !i in
      while !j < n && (let d = s.[!j] in d = '-' || (d >= '0' && d <= '9')) do incr j done;
      if !j = !i then failwith "bad character";
      let v = int_of_string (String.sub s !i (!j - !i)) in
      (match !stack with top :: _ -> top := Sx.A (z_of_int v) :: !top | [] -> failwith "empty");
      i := !j end
  done;
  match !stack with
  | [top] -> (match !top with [x] -> x | _ -> failwith "expected one expression")
  | _ -> failwith "unbalanced"

let rec print (b : Buffer.t) (x : Sx.sx) : unit =
  match x with
  | Sx.A z -> Buffer.add_string b (string_of_int (int_of_z z))
  | Sx.L l ->
    Buffer.add_char b '(';
    List.iteri (fun k y -> if k > 0 then Buffer.add_char b ' '; print b y) l;
    Buffer.add_char b ')'

let () =
  let b = Buffer.create 65536 in
  (try
     while true do
       let line = input_line stdin in
       Buffer.clear b;
       (try print b (Dispatch.run_case (parse line))
        with Stack_overflow -> (Buffer.clear b; Buffer.add_string b "(-3)")
           | Failure m -> (Buffer.clear b; Buffer.add_string b "(-4)"));
       Buffer.add_char b '\n';
       print_string (Buffer.contents b)
     done
   with End_of_file -> ());
  flush stdout
